#!/usr/bin/env python3
"""Regenerate MANIFEST.json from the harness modules present under harness/ (run with .venv/bin/python)."""
import json, os, sys, importlib
ROOT = os.path.dirname(os.path.abspath(__file__))
sys.path.insert(0, ROOT)
props = [json.loads(l) for l in open(os.path.join(ROOT, 'properties.jsonl'))]
NA = json.load(open(os.path.join(ROOT, 'not_applicable.json'))) if os.path.exists(os.path.join(ROOT, 'not_applicable.json')) else {}
checks, na = [], []
for p in props:
    pid = p['id']
    path = os.path.join(ROOT, 'harness', pid + '.py')
    if not os.path.exists(path) or pid in NA:
        na.append(dict(property_id=pid, reason=NA.get(pid, 'check not built yet in this round (planned in DESIGN.md section 3)')))
        continue
    hm = importlib.import_module('harness.' + pid)
    checks.append(dict(
        property_id=pid,
        quick_cmd='./check %s --tier quick' % pid,
        thorough_cmd='./check %s --tier thorough' % pid,
        evidence_file='evidence/%s.json' % pid,
        replay_cmd_template='./check %s --replay {path}' % pid,
        engine='symnp',
        level_claimed=dict(category='model_checking', text=hm.LEVEL_TEXT, design_ref=getattr(hm, 'DESIGN_REF', 'DESIGN.md section 3, ' + pid)),
        level_note=hm.LEVEL_NOTE,
        technique=getattr(hm, 'TECHNIQUE', 'bounded symbolic execution of the real Python source on a NumPy shim; per-path obligations decided by z3 (linear abstraction, then QF_NRA); counterexamples replayed on the real package'),
    ))
man = dict(
    version=1,
    setup_cmd='./setup.sh',
    hooks=dict(guard='KNEELIVERSE_VERIF', enable='no source hooks: the loader substitutes numpy/math/numba from outside (DESIGN.md 2.1)',
               baseline_off_cmd='cd /repo && /venv/bin/python -m pytest -ra -q -p no:cacheprovider --timeout=900 --continue-on-collection-errors',
               source_commits=[], add_only=True),
    engines=[dict(name='symnp', path='symnp/', serves_properties=[c['property_id'] for c in checks],
                  kind_free_text='symbolic execution of /repo/src/kneeliverse/*.py (AST-preserving loader + NumPy/math shim over polynomial terms), '
                                 'path exploration by re-execution, obligations decided by z3 5.1 (QF_UFLRA abstraction then QF_NRA), replay on the real package')],
    checks=checks,
    not_applicable=na,
    notes='Every check regenerates its encoding from /repo working tree at run time. Exit 0 = all obligations unsat (or inconclusive, stated in evidence); exit 1 = solver counterexample reproduced on the real package; exit 2 = harness error. See DESIGN.md.',
)
json.dump(man, open(os.path.join(ROOT, 'MANIFEST.json'), 'w'), indent=1)
print('MANIFEST: %d checks, %d not applicable' % (len(checks), len(na)))

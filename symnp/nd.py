"""symnp.nd -- the model of NumPy / math that the repository's code is executed against.

Arrays are a thin facade over real NumPy arrays (dtype object for values, native int/bool for
index and mask arrays) so that slicing, views, fancy indexing, broadcasting and shapes are NumPy's
own; values are exact (Fraction) or symbolic (core.S / core.B)."""
import types, builtins, bisect
import math as _math
from fractions import Fraction as Fr
import numpy as _np
from . import core
from .core import S, B, NotEncodable, to_fr


# ----------------------------------------------------------------------------- helpers

def _conv_elem(v):
    if isinstance(v, (S, B, Fr)):
        return v
    if isinstance(v, (bool, _np.bool_)):
        return bool(v)
    if isinstance(v, (int, _np.integer)):
        return int(v)
    if isinstance(v, (float, _np.floating)):
        return to_fr(v)
    if v is None:
        return v
    if isinstance(v, ndarray):
        return v
    raise NotEncodable('array element of type %s' % type(v).__name__)


def _norm(a):
    """canonical storage: native int / bool dtype when every element is a concrete int / bool,
    otherwise dtype object with exact elements (no floats)."""
    if not isinstance(a, _np.ndarray):
        a = _np.asarray(a)
    k = a.dtype.kind
    if k in 'iu':
        return a.astype(_np.int64) if a.dtype != _np.int64 else a
    if k == 'b':
        return a
    if k == 'f':
        o = _np.empty(a.shape, dtype=object)
        of, af = o.reshape(-1), a.reshape(-1)
        for i in range(af.size):
            of[i] = to_fr(af[i])
        return o
    if k == 'O':
        flat = a.reshape(-1)
        if flat.size == 0:
            return a
        allint = allbool = True
        for v in flat:
            if isinstance(v, (bool, _np.bool_)):
                allint = False
            elif isinstance(v, (int, _np.integer)):
                allbool = False
            else:
                allint = allbool = False
                break
        if allint:
            return a.astype(_np.int64)
        if allbool:
            return a.astype(bool)
        o = _np.empty(a.shape, dtype=object)
        of = o.reshape(-1)
        for i, v in enumerate(flat):
            of[i] = _conv_elem(v)
        return o
    raise NotEncodable('dtype %s' % a.dtype)


def _scalar(v):
    if isinstance(v, _np.integer):
        return int(v)
    if isinstance(v, _np.bool_):
        return bool(v)
    if isinstance(v, _np.floating):
        return to_fr(v)
    return v


def _wrap(r):
    if isinstance(r, _np.ndarray):
        if r.ndim == 0:
            return _scalar(r.item())
        return ndarray(r, _raw=True)
    return _scalar(r)


def _raw(x):
    """numpy array (canonical) of anything array-like"""
    if isinstance(x, ndarray):
        return x.d
    if isinstance(x, _np.ndarray):
        return _norm(x)
    if isinstance(x, (list, tuple)):
        return _norm(_build(x))
    return _norm(_np.asarray(_conv_elem(x), dtype=object))


def _build(x):
    """nested lists / tuples / facades -> numpy object array"""
    def conv(v):
        if isinstance(v, ndarray):
            return [conv(e) for e in v.d] if v.d.ndim > 1 else list(v.d)
        if isinstance(v, _np.ndarray):
            return [conv(e) for e in v] if v.ndim > 1 else list(v)
        if isinstance(v, (list, tuple)):
            return [conv(e) for e in v]
        return v
    lst = conv(x)
    shape = []
    cur = lst
    while isinstance(cur, list):
        shape.append(len(cur))
        if not cur:
            break
        cur = cur[0]
    # ragged check
    def chk(l, d):
        if d == len(shape):
            if isinstance(l, list):
                raise ValueError('setting an array element with a sequence. The requested array has an inhomogeneous shape')
            return
        if not isinstance(l, list) or len(l) != shape[d]:
            raise ValueError('setting an array element with a sequence. The requested array has an inhomogeneous shape')
        for e in l:
            chk(e, d + 1)
    chk(lst, 0)
    out = _np.empty(shape, dtype=object)
    if out.size:
        def fill(l, idx):
            if len(idx) == len(shape):
                out[idx] = l
            else:
                for i, e in enumerate(l):
                    fill(e, idx + (i,))
        fill(lst, ())
    else:
        out = _np.empty(shape, dtype=_np.float64)
    return out


def _obj(d):
    return d if d.dtype == object else d.astype(object)


def _exact(d):
    """object array whose int entries are turned into Fractions (safe for true division)"""
    o = _np.empty(d.shape, dtype=object)
    of, df = o.reshape(-1), d.reshape(-1)
    for i in range(df.size):
        v = df[i]
        if isinstance(v, (bool, _np.bool_)):
            v = Fr(int(v))
        elif isinstance(v, (int, _np.integer)):
            v = Fr(int(v))
        of[i] = v
    return o


def _is_mask(d):
    if d.dtype == bool:
        return True
    if d.dtype == object and d.size:
        return all(isinstance(v, (B, bool, _np.bool_)) for v in d.reshape(-1))
    return False


def _concretize_mask(d):
    if d.dtype == bool:
        return d
    out = _np.empty(d.shape, dtype=bool)
    of, df = out.reshape(-1), d.reshape(-1)
    for i in range(df.size):
        of[i] = bool(df[i])      # forks on symbolic entries
    return out


def _index(k):
    if isinstance(k, tuple):
        return tuple(_index(x) for x in k)
    if isinstance(k, ndarray):
        d = k.d
        if _is_mask(d):
            return _concretize_mask(d)
        if d.dtype == object:
            return _np.array([_as_int(v) for v in d.reshape(-1)], dtype=_np.int64).reshape(d.shape)
        return d
    if isinstance(k, list):
        return [_as_int(x) if not isinstance(x, (bool, _np.bool_, list)) else x for x in k]
    if isinstance(k, (Fr, S)):
        return _as_int(k)
    return k


def _as_int(v):
    if isinstance(v, (int, _np.integer)):
        return int(v)
    if isinstance(v, Fr):
        if v.denominator != 1:
            raise IndexError('only integers, slices (`:`), ellipsis (`...`), numpy.newaxis (`None`) and integer or boolean arrays are valid indices')
        # the real code would hold a float here: NumPy rejects float indices
        raise IndexError('only integers, slices (`:`), ellipsis (`...`), numpy.newaxis (`None`) and integer or boolean arrays are valid indices')
    if isinstance(v, S):
        raise NotEncodable('symbolic index')
    raise IndexError('invalid index %r' % (v,))


# ----------------------------------------------------------------------------- write log (purity, C20)

ARG_BUFFERS = []     # numpy buffers owned by the harness' arguments
WRITE_LOG = []


def register_argument(a):
    ARG_BUFFERS.append(a.d if isinstance(a, ndarray) else a)


def reset_write_log():
    del ARG_BUFFERS[:]
    del WRITE_LOG[:]


def _log_write(d, what):
    for b in ARG_BUFFERS:
        if _np.shares_memory(d, b):
            import traceback
            fr = [f for f in traceback.extract_stack()[:-2] if '/symnp/' not in f.filename][-1:]
            WRITE_LOG.append('%s at %s' % (what, ', '.join('%s:%d' % (f.filename.split('/')[-1], f.lineno) for f in fr)))
            break


# ----------------------------------------------------------------------------- the array facade


class ndarray:
    __array_priority__ = 1e8
    __hash__ = None

    def __init__(self, data, _raw=False):
        self.d = data if _raw else _norm(_build(data) if isinstance(data, (list, tuple)) else data)

    # structure ------------------------------------------------------------------
    @property
    def shape(self): return self.d.shape
    @property
    def size(self): return self.d.size
    @property
    def ndim(self): return self.d.ndim
    @property
    def T(self): return ndarray(self.d.T, _raw=True)
    @property
    def dtype(self): return self.d.dtype
    @property
    def flat(self): return iter([_scalar(v) for v in self.d.reshape(-1)])

    def __len__(self):
        return len(self.d)

    def __iter__(self):
        for i in range(len(self.d)):
            yield self[i]

    def __getitem__(self, k):
        return _wrap(self.d[_index(k)])

    def __setitem__(self, k, v):
        _log_write(self.d, 'item assignment')
        k = _index(k)
        if isinstance(v, ndarray):
            v = v.d
        elif isinstance(v, (list, tuple)):
            v = _raw(v)
        else:
            v = _conv_elem(v)
        need_obj = isinstance(v, (S, B, Fr)) or (isinstance(v, _np.ndarray) and v.dtype == object)
        if need_obj and self.d.dtype != object:
            # in-place dtype change is impossible for a view: fall back to a fresh buffer (float arrays in NumPy)
            if self.d.base is not None:
                raise NotEncodable('writing a real value through an integer view')
            self.d = self.d.astype(object)
        if self.d.dtype == _np.int64 and isinstance(v, Fr):
            raise NotEncodable('fraction into int array')
        self.d[k] = v

    def __contains__(self, v):
        for e in self.d.reshape(-1):
            if bool(_scalar(e) == v):
                return True
        return False

    # arithmetic -----------------------------------------------------------------
    def _bin(self, o, op, exact=False, rev=False):
        if isinstance(o, (list, tuple)):
            o = _raw(o)
        od = o.d if isinstance(o, ndarray) else o
        a = self.d
        if not exact and a.dtype != object and not isinstance(od, (S, B, Fr, float, _np.floating)) and \
                not (isinstance(od, _np.ndarray) and od.dtype == object):
            r = op(od, a) if rev else op(a, od)      # native int/bool arithmetic
            return _wrap(_norm(r))
        A = _exact(a) if exact else _obj(a)
        if isinstance(od, _np.ndarray):
            Bb = _exact(od) if exact else _obj(od)
        else:
            Bb = _conv_elem(od)
            if exact and isinstance(Bb, int) and not isinstance(Bb, bool):
                Bb = Fr(Bb)
        f = _np.frompyfunc((lambda x, y: op(y, x)) if rev else op, 2, 1)
        return _wrap(_norm(f(A, Bb)))

    def __add__(s, o): return s._bin(o, lambda a, b: a + b)
    def __radd__(s, o): return s._bin(o, lambda a, b: a + b, rev=True)
    def __sub__(s, o): return s._bin(o, lambda a, b: a - b)
    def __rsub__(s, o): return s._bin(o, lambda a, b: a - b, rev=True)
    def __mul__(s, o): return s._bin(o, _mul)
    def __rmul__(s, o): return s._bin(o, _mul, rev=True)
    def __truediv__(s, o): return s._bin(o, core.div, exact=True)
    def __rtruediv__(s, o): return s._bin(o, core.div, exact=True, rev=True)
    def __pow__(s, o): return s._bin(o, core.spow, exact=True)
    def __and__(s, o): return s._bin(o, lambda a, b: a & b)
    def __rand__(s, o): return s._bin(o, lambda a, b: a & b, rev=True)
    def __or__(s, o): return s._bin(o, lambda a, b: a | b)
    def __ror__(s, o): return s._bin(o, lambda a, b: a | b, rev=True)
    def __invert__(s): return _wrap(_norm(_np.frompyfunc(core.bnot, 1, 1)(_obj(s.d)))) if s.d.dtype != bool else _wrap(~s.d)
    def __neg__(s): return _wrap(_norm(_np.frompyfunc(lambda a: -a, 1, 1)(_obj(s.d)))) if s.d.dtype == object else _wrap(-s.d)
    def __pos__(s): return s
    def __abs__(s): return absolute(s)

    def __iadd__(s, o):
        _log_write(s.d, 'in-place +=')
        r = s + o
        s.d[...] = r.d if s.d.dtype == object or r.d.dtype != object else r.d
        return s

    def __isub__(s, o):
        _log_write(s.d, 'in-place -=')
        r = s - o
        s.d[...] = r.d
        return s

    def _cmp(self, o, op):
        if isinstance(o, (list, tuple)):
            o = _raw(o)
        od = o.d if isinstance(o, ndarray) else (o if isinstance(o, _np.ndarray) else _conv_elem(o))
        f = _np.frompyfunc(op, 2, 1)
        r = f(_obj(self.d), _obj(od) if isinstance(od, _np.ndarray) else od)
        return _wrap(_norm(r)) if isinstance(r, _np.ndarray) else r

    def __lt__(s, o): return s._cmp(o, lambda a, b: a < b)
    def __le__(s, o): return s._cmp(o, lambda a, b: a <= b)
    def __gt__(s, o): return s._cmp(o, lambda a, b: a > b)
    def __ge__(s, o): return s._cmp(o, lambda a, b: a >= b)
    def __eq__(s, o): return s._cmp(o, lambda a, b: a == b)
    def __ne__(s, o): return s._cmp(o, lambda a, b: a != b)

    def __bool__(self):
        if self.d.size != 1:
            raise ValueError('The truth value of an array with more than one element is ambiguous. Use a.any() or a.all()')
        return bool(_scalar(self.d.reshape(-1)[0]))

    # methods --------------------------------------------------------------------
    def sum(self, axis=None): return sum_(self, axis)
    def max(self, axis=None): return amax(self, axis)
    def min(self, axis=None): return amin(self, axis)
    def mean(self, axis=None): return mean(self, axis)
    def argmax(self): return argmax(self)
    def argmin(self): return argmin(self)
    def argsort(self, *a, **k): return argsort(self, *a, **k)
    def all(self, axis=None): return all_(self, axis)
    def any(self, axis=None): return any_(self, axis)
    def cumsum(self, axis=None, out=None): return cumsum(self, axis, out)
    def flatten(self): return ndarray(self.d.flatten(), _raw=True)
    def ravel(self): return ndarray(self.d.reshape(-1), _raw=True)
    def reshape(self, *s): return ndarray(self.d.reshape(*s), _raw=True)
    def copy(self): return ndarray(self.d.copy(), _raw=True)
    def tolist(self): return [_scalar(v) for v in self.d] if self.d.ndim == 1 else [ndarray(r, _raw=True).tolist() for r in self.d]

    def astype(self, t):
        if t is b_int:
            t = int
        elif t is b_float:
            t = float
        if _int_dtype(t):
            if self.d.dtype == object:
                return ndarray(_np.array([core.sint(v) for v in self.d.reshape(-1)], dtype=_np.int64).reshape(self.d.shape), _raw=True)
            return ndarray(self.d.astype(_np.int64), _raw=True)
        if t in (float, _np.float64, _np.float32, 'float', 'float64'):
            return ndarray(self.d.copy(), _raw=True)
        if t is bool:
            return ndarray(_concretize_mask(_obj(self.d)), _raw=True)
        raise NotEncodable('astype(%r)' % (t,))

    def sort(self, axis=-1):
        _log_write(self.d, 'in-place sort')
        if self.d.ndim != 1:
            raise NotEncodable('sort of a %d-d array' % self.d.ndim)
        self.d[:] = self.d[argsort(self).d]

    def __repr__(self):
        return 'sym' + repr(self.d)


def _mul(a, b):
    if isinstance(a, (B, bool, _np.bool_)) and isinstance(b, (B, bool, _np.bool_)):
        return core.band(a, b)
    return a * b


# ----------------------------------------------------------------------------- constructors

def _int_dtype(t):
    return t is not None and (t in (int, _np.int64, _np.int32, _np.intp, 'int', 'int64', 'int32', 'i8', 'i4') or t is BUILTINS.get('int'))


def _float_dtype(t):
    return t is not None and (t in (float, _np.float64, _np.float32, 'float', 'float64', 'f8', 'd') or t is BUILTINS.get('float'))


def _to_real(d):
    """int64 / bool buffer -> object buffer of exact rationals (what a float array is in this model)"""
    o = _np.empty(d.shape, dtype=object)
    of = o.reshape(-1)
    for i, v in enumerate(d.reshape(-1)):
        of[i] = Fr(int(v))
    return o


def array(x, dtype=None):
    if isinstance(x, ndarray):
        r = ndarray(x.d.copy(), _raw=True)
    else:
        r = ndarray(_raw(x), _raw=True)
    if _int_dtype(dtype):
        r = r.astype(int) if r.d.size else ndarray(_np.zeros(r.d.shape, dtype=_np.int64), _raw=True)
    elif _float_dtype(dtype) and r.d.dtype != object:
        r = ndarray(_to_real(r.d), _raw=True)
    return r


def asarray(x, dtype=None):
    return x if isinstance(x, ndarray) and dtype is None else array(x, dtype)


def _shape(n):
    if isinstance(n, (list, tuple)):
        return tuple(int(v) for v in n)
    return (_as_len(n),)


def _as_len(n):
    if isinstance(n, (int, _np.integer)):
        return int(n)
    raise TypeError("'%s' object cannot be interpreted as an integer" % type(n).__name__)


def zeros(n, dtype=None):
    if _int_dtype(dtype):
        return ndarray(_np.zeros(_shape(n), dtype=_np.int64), _raw=True)
    o = _np.empty(_shape(n), dtype=object)
    o.fill(Fr(0))
    return ndarray(o, _raw=True)


def empty(n, dtype=None):
    return zeros(n, dtype)


def full(n, v, dtype=None):
    if _float_dtype(dtype) and isinstance(v, (int, _np.integer)) and not isinstance(v, (bool, _np.bool_)):
        v = Fr(int(v))
    if isinstance(v, (bool, _np.bool_)):
        return ndarray(_np.full(_shape(n), bool(v)), _raw=True)
    o = _np.empty(_shape(n), dtype=object)
    o.fill(_conv_elem(v))
    return ndarray(_norm(o), _raw=True)


def ones(n, dtype=None):
    if _int_dtype(dtype):
        return ndarray(_np.ones(_shape(n), dtype=_np.int64), _raw=True)
    o = _np.empty(_shape(n), dtype=object)
    o.fill(Fr(1))
    return ndarray(o, _raw=True)


def ones_like(a, dtype=None):
    d = _raw(a)
    return ones(d.shape, dtype if dtype is not None else (int if d.dtype == _np.int64 else None))


def full_like(a, v, dtype=None):
    d = _raw(a)
    if dtype is None and d.dtype == object and isinstance(v, (int, _np.integer)) and not isinstance(v, (bool, _np.bool_)):
        v = Fr(int(v))
    return full(d.shape, v, dtype)


def clip(a, lo, hi):
    return _ew1(lambda v: core.smin(core.smax(v, lo), hi), a)


def sign(a):
    def f(v):
        if isinstance(v, S):
            return core.ite(v > 0, Fr(1), core.ite(v < 0, Fr(-1), Fr(0)))
        return Fr((v > 0) - (v < 0))
    return _ew1(f, a)


def floor(a):
    return _ew1(lambda v: Fr(core.sfloor(v)), a)


def ceil(a):
    return _ew1(lambda v: Fr(core.sceil(v)), a)


def flip(a, axis=None):
    return ndarray(_np.flip(_raw(a), axis=axis), _raw=True)


def nonzero(a):
    return where(ndarray(_raw(a), _raw=True) != 0)


def count_nonzero(a):
    return len(nonzero(a)[0])


def vstack(seq):
    arrs = [_obj(_raw(x)) for x in seq]
    arrs = [x.reshape(1, -1) if x.ndim == 1 else x for x in arrs]
    return ndarray(_norm(_np.concatenate(arrs, axis=0)), _raw=True)


def stack(seq, axis=0):
    arrs = [_obj(_raw(x)) for x in seq]
    return ndarray(_norm(_np.stack(arrs, axis=axis)), _raw=True)


def isnan(a):
    return _ew1(lambda v: False, a)


def isfinite(a):
    return _ew1(lambda v: True, a)


def copy(a):
    return array(a)


def linspace(a, b, num=50, endpoint=True):
    a, b = (v if isinstance(v, S) else to_fr(_scalar(v.d.reshape(-1)[0]) if isinstance(v, ndarray) else v) for v in (a, b))
    num = int(num)
    if num == 1:
        return ndarray(_norm(_list1d([a])), _raw=True)
    if not endpoint:
        return ndarray(_norm(_list1d([a + (b - a) * Fr(i, num) for i in range(num)])), _raw=True)
    return ndarray(_norm(_list1d([a + (b - a) * Fr(i, num - 1) for i in range(num)])), _raw=True)


def zeros_like(a, dtype=None):
    d = _raw(a)
    if dtype is not None:
        return zeros(d.shape, dtype)
    if d.dtype == _np.int64:
        return ndarray(_np.zeros_like(d), _raw=True)
    if d.dtype == bool:
        return ndarray(_np.zeros(d.shape, dtype=bool), _raw=True)
    return zeros(d.shape)


def empty_like(a, dtype=None):
    return zeros_like(a, dtype)


def arange(*a, dtype=None):
    if any(isinstance(v, (Fr, float)) and to_fr(v).denominator != 1 for v in a):
        start, stop, step = (to_fr(a[0]), to_fr(a[1]), to_fr(a[2]) if len(a) > 2 else Fr(1)) if len(a) > 1 else (Fr(0), to_fr(a[0]), Fr(1))
        k = max(0, -((start - stop) // step))
        return array([start + i * step for i in range(int(k))])
    r = ndarray(_np.arange(*[int(v) for v in a]), _raw=True)
    if _float_dtype(dtype) or (not _int_dtype(dtype) and any(isinstance(v, (Fr, float)) for v in a)):
        r = ndarray(_to_real(r.d), _raw=True)
    return r


# ----------------------------------------------------------------------------- element-wise

def _ew1(f, a):
    if isinstance(a, (ndarray, list, tuple, _np.ndarray)):
        return _wrap(_norm(_np.frompyfunc(f, 1, 1)(_exact(_raw(a)))))
    return f(_conv_elem(a) if not isinstance(a, (S, Fr)) else a)


def absolute(a):
    return _ew1(lambda v: core.sabs(v) if isinstance(v, S) else abs(v), a)


def square(a):
    return _ew1(lambda v: core.spow(v, 2), a)


def sqrt(a):
    return _ew1(core.ssqrt, a)


def power(a, e):
    return _ew1(lambda v: core.spow(v, e), a)


def log(a):
    def f(v):
        if not isinstance(v, S):
            v = to_fr(v)
            if v <= 0:
                raise core.DomainError('log of a non-positive constant')
            if v == 1:
                return Fr(0)
        return core.uf('log', v)
    return _ew1(f, a)


def exp(a):
    def f(v):
        if not isinstance(v, S) and to_fr(v) == 0:
            return Fr(1)
        return core.uf('exp', v, nn=True)
    return _ew1(f, a)


def _ew2(f, a, b):
    A = _exact(_raw(a)) if isinstance(a, (ndarray, list, tuple, _np.ndarray)) else _conv_elem(a)
    Bb = _exact(_raw(b)) if isinstance(b, (ndarray, list, tuple, _np.ndarray)) else _conv_elem(b)
    r = _np.frompyfunc(f, 2, 1)(A, Bb)
    return _wrap(_norm(r)) if isinstance(r, _np.ndarray) else r


class _Maximum:
    def __call__(self, a, b):
        return _ew2(core.smax, a, b)

    def accumulate(self, a, axis=0):
        r, out = None, []
        for v in _flat(a):
            r = v if r is None else self(r, v)
            out.append(r)
        return array(out)

    def reduce(self, lst, axis=0):
        r = lst[0]
        for x in lst[1:]:
            r = self(r, x)
        return r


class _Minimum:
    def __call__(self, a, b):
        return _ew2(core.smin, a, b)

    def accumulate(self, a, axis=0):
        r, out = None, []
        for v in _flat(a):
            r = v if r is None else self(r, v)
            out.append(r)
        return array(out)

    def reduce(self, lst, axis=0):
        r = lst[0]
        for x in lst[1:]:
            r = self(r, x)
        return r


def hypot(a, b):
    return _ew2(lambda x, y: core.ssqrt(x * x + y * y), a, b)


def divide(a, b):
    return _ew2(core.div, a, b)


# ----------------------------------------------------------------------------- reductions

def _flat(a):
    return [_scalar(v) for v in _raw(a).reshape(-1)]


def _along(a, axis, f):
    d = _raw(a)
    if axis is None:
        return f([_scalar(v) for v in d.reshape(-1)])
    if d.ndim == 1:
        if axis in (0, -1):
            return f([_scalar(v) for v in d])
        raise ValueError('axis %d is out of bounds for array of dimension 1' % axis)
    if d.ndim == 2:
        if axis == 0:
            r = [f([_scalar(v) for v in d[:, j]]) for j in range(d.shape[1])]
        elif axis in (1, -1):
            r = [f([_scalar(v) for v in d[i, :]]) for i in range(d.shape[0])]
        else:
            raise ValueError('axis out of bounds')
        if not r:
            return ndarray(_np.zeros((0,), dtype=object), _raw=True)
        return ndarray(_norm(_list1d(r)), _raw=True)
    raise NotEncodable('reduction over %d-d array' % d.ndim)


def _list1d(lst):
    o = _np.empty(len(lst), dtype=object)
    for i, v in enumerate(lst):
        o[i] = v
    return o


def _count(v):
    """a truth value used as a number (sum / cumsum of a mask): 0 or 1, decided by a fork when symbolic"""
    return (1 if bool(v) else 0) if isinstance(v, (B, bool, _np.bool_)) else v


def _psum(l):
    r = 0
    for v in l:
        r = r + _count(v)
    return r if l else Fr(0)


def sum_(a, axis=None):
    return _along(a, axis, _psum)


def prod(a, axis=None):
    def f(l):
        r = 1
        for v in l:
            r = r * v
        return r
    return _along(a, axis, f)


def _pmean(l):
    if not l:
        raise core.DomainError('mean of empty slice')
    s = _psum(l)
    return Fr(s, len(l)) if isinstance(s, int) else core.div(s, len(l))


def mean(a, axis=None):
    return _along(a, axis, _pmean)


def average(a, axis=None, weights=None):
    if weights is None:
        return mean(a, axis)
    v, w = _flat(a), _flat(weights)
    if len(v) != len(w):
        raise TypeError('Axis must be specified when shapes of a and weights differ.')
    return core.div(_psum([x * y for x, y in zip(v, w)]), _psum(w))


def std(a):
    l = _flat(a)
    m = _pmean(l)
    return core.ssqrt(_pmean([(v - m) * (v - m) for v in l]))


def _first_extreme(vals, strict_better):
    """n-way decision: NumPy's argmax/argmin return the first extreme element"""
    n = len(vals)
    if n == 0:
        raise ValueError('attempt to get argmax of an empty sequence')
    if n == 1:
        return 0
    if not any(isinstance(v, S) for v in vals):
        best = 0
        for i in range(1, n):
            if strict_better(vals[i], vals[best]) is True:
                best = i
        return best
    conds = []
    for i in range(n):
        cs = []
        for j in range(n):
            if j < i:
                cs.append(strict_better(vals[i], vals[j]))
            elif j > i:
                cs.append(core.bnot(strict_better(vals[j], vals[i])))
        conds.append(core.band(*cs))
    return core.CTX.choose(conds)


def _gt(a, b):
    r = a > b
    return r


def _lt(a, b):
    return a < b


def argmax(a, axis=None):
    if axis is not None:
        raise NotEncodable('argmax(axis)')
    return _first_extreme(_flat(a), _gt)


def argmin(a, axis=None):
    if axis is not None:
        raise NotEncodable('argmin(axis)')
    return _first_extreme(_flat(a), _lt)


def _pmax(l):
    if not l:
        raise ValueError('zero-size array to reduction operation maximum which has no identity')
    r = l[0]
    for v in l[1:]:
        r = core.smax(r, v)
    return r


def _pmin(l):
    if not l:
        raise ValueError('zero-size array to reduction operation minimum which has no identity')
    r = l[0]
    for v in l[1:]:
        r = core.smin(r, v)
    return r


def amax(a, axis=None):
    return _along(a, axis, _pmax)


def amin(a, axis=None):
    return _along(a, axis, _pmin)


def ptp(a):
    return amax(a) - amin(a)


def all_(a, axis=None):
    return _along(a, axis, lambda l: core.band(*[_truth(v) for v in l]))


def any_(a, axis=None):
    return _along(a, axis, lambda l: core.bor(*[_truth(v) for v in l]))


def _truth(v):
    if isinstance(v, (B, bool, _np.bool_)):
        return v
    if isinstance(v, S):
        return v != 0
    return bool(v)


def _sorted_vals(l):
    return sorted(l)   # forks on symbolic comparisons


def median(a):
    l = _sorted_vals(_flat(a))
    n = len(l)
    if n == 0:
        raise core.DomainError('median of empty array')
    return l[n // 2] if n % 2 else core.div(l[n // 2 - 1] + l[n // 2], 2)


def cumsum(a, axis=None, out=None):
    res, r = [], 0
    for v in _flat(a):
        r = r + _count(v)
        res.append(r)
    arr = _norm(_list1d(res))
    if out is not None:
        out[:] = ndarray(arr, _raw=True)      # goes through __setitem__: logged as a write when `out` aliases an argument
        return out
    return ndarray(arr, _raw=True)


def diff(a, axis=-1):
    d = _raw(a)
    A = ndarray(d, _raw=True)
    if d.ndim == 1:
        return A[1:] - A[:-1]
    if axis == 0:
        return A[1:] - A[:-1]
    return A[:, 1:] - A[:, :-1]


def dot(a, b):
    A, Bb = _raw(a), _raw(b)
    if A.ndim == 2 and Bb.ndim == 1:
        if A.shape[1] != len(Bb):
            raise ValueError('shapes %s and %s not aligned' % (A.shape, Bb.shape))
        return ndarray(_norm(_list1d([_psum([_scalar(x) * _scalar(y) for x, y in zip(r, Bb)]) for r in A])), _raw=True)
    if A.ndim == 1 and Bb.ndim == 1:
        if len(A) != len(Bb):
            raise ValueError('shapes not aligned')
        return _psum([_scalar(x) * _scalar(y) for x, y in zip(A, Bb)])
    raise NotEncodable('dot of %d-d and %d-d' % (A.ndim, Bb.ndim))


def cross(a, b):
    A, Bb = _raw(a), _raw(b)
    if A.shape[-1] == 2 or Bb.shape[-1] == 2:
        # NumPy >= 2.0 removed the 2-vector form
        raise ValueError('Both input arrays must be (arrays of) 3-dimensional vectors, but they are 2 and 2 dimensional instead.')
    raise NotEncodable('3-d cross product')


class _Linalg:
    @staticmethod
    def norm(a, axis=None):
        d = _raw(a)
        if axis is None:
            return core.ssqrt(_psum([core.spow(_scalar(v), 2) for v in d.reshape(-1)]))
        return _along(a, axis, lambda l: core.ssqrt(_psum([core.spow(v, 2) for v in l])))


def argsort(a, *args, **kw):
    l = _flat(a)
    if not any(isinstance(v, S) for v in l):
        return ndarray(_np.argsort(_np.array([float(v) if False else v for v in l], dtype=object), kind='stable').astype(_np.int64), _raw=True)
    # NumPy's default sort is not stable (vectorised quicksort): the order of equal keys is unspecified.
    # Model: a comparator that forks three ways and resolves a tie by a free choice.
    import functools

    def cmp(i, j):
        a, b = l[i], l[j]
        k = core.CTX.choose([a < b, a > b, a == b])
        if k == 0:
            return -1
        if k == 1:
            return 1
        # the order of tied keys is unspecified but a deterministic function of the input: key the free choice by the tied pair
        ka = a.key() if isinstance(a, S) else repr(a)
        kb = b.key() if isinstance(b, S) else repr(b)
        import zlib
        tag = zlib.crc32(repr((ka, kb, i < j)).encode()) & 0xffffff
        if kw.get('kind') in ('stable', 'mergesort'):
            return -1 if i < j else 1          # a stable sort keeps tied keys in input order
        core.CTX.tie_count = getattr(core.CTX, 'tie_count', 0) + 1
        r = -1 if bool(core.CTX.var('tie!%06x' % tag) >= 0) else 1
        return r if i < j else -r
    idx = sorted(range(len(l)), key=functools.cmp_to_key(cmp))
    return ndarray(_np.array(idx, dtype=_np.int64), _raw=True)


def sort(a, axis=-1, kind=None):
    A = array(a)
    A.d[:] = A.d[argsort(A, kind=kind).d]
    return A


def unique(a):
    d = _raw(a)
    if d.dtype == object:
        l = _flat(a)
        if any(isinstance(v, S) for v in l):
            raise NotEncodable('unique of symbolic values')
        return ndarray(_norm(_list1d(sorted(set(l)))), _raw=True)
    return ndarray(_np.unique(d), _raw=True)


def where(c, *rest):
    if rest:
        x, y = rest
        return _wrap(_norm(_np.frompyfunc(lambda cc, u, v: core.ite(cc, u, v) if isinstance(cc, B) else (u if cc else v), 3, 1)(
            _obj(_raw(c)), _exact(_raw(x)) if isinstance(x, (ndarray, list, tuple)) else _conv_elem(x), _exact(_raw(y)) if isinstance(y, (ndarray, list, tuple)) else _conv_elem(y))))
    d = _raw(c)
    m = _concretize_mask(_obj(d)) if d.dtype != bool else d
    return tuple(ndarray(x.astype(_np.int64), _raw=True) for x in _np.where(m))


def argwhere(c):
    d = _raw(c)
    m = _concretize_mask(_obj(d)) if d.dtype != bool else d
    return ndarray(_np.argwhere(m).astype(_np.int64), _raw=True)


def searchsorted(a, v, side='left', sorter=None):
    A = _flat(a)
    if sorter is not None:
        A = [A[i] for i in _flat(sorter)]
    symbolic = any(isinstance(x, S) for x in A)

    def one(x):
        if not symbolic and not isinstance(x, S):
            return bisect.bisect_left(A, x) if side == 'left' else bisect.bisect_right(A, x)
        # binary search as NumPy does it on a sorted array: forks on the symbolic comparisons
        lo, hi = 0, len(A)
        while lo < hi:
            mid = (lo + hi) // 2
            if bool(A[mid] < x) if side == 'left' else bool(A[mid] <= x):
                lo = mid + 1
            else:
                hi = mid
        return lo
    if isinstance(v, (ndarray, list, tuple)):
        return ndarray(_np.array([one(x) for x in _flat(v)], dtype=_np.int64), _raw=True)
    return one(v)


def concatenate(seq, axis=0):
    arrs = [_raw(x) for x in seq]
    arrs = [x for x in arrs]
    if any(x.dtype == object for x in arrs):
        arrs = [_obj(x) for x in arrs]
    r = _np.concatenate(arrs, axis=axis)
    if r.dtype.kind == 'f':   # concatenation with an empty float array
        r = _norm(r)
    return ndarray(_norm(r), _raw=True)


def hstack(seq):
    return concatenate(seq, axis=0) if _raw(seq[0]).ndim == 1 else concatenate(seq, axis=1)


def column_stack(seq):
    arrs = [_obj(_raw(x)) for x in seq]
    arrs = [x.reshape(-1, 1) if x.ndim == 1 else x for x in arrs]
    return ndarray(_norm(_np.concatenate(arrs, axis=1)), _raw=True)


def append(a, v, axis=None):
    A, V = _raw(a), _raw(v)
    if axis is None:
        return concatenate([ndarray(A.reshape(-1), _raw=True), ndarray(V.reshape(-1), _raw=True)])
    if A.ndim != V.ndim:
        raise ValueError('all the input arrays must have same number of dimensions')
    if A.size == 0 or A.dtype == object or V.dtype == object:
        A, V = _obj(A), _obj(V)
    return ndarray(_norm(_np.concatenate([A, V], axis=axis)), _raw=True)


def delete(a, i, axis=None):
    return ndarray(_np.delete(_raw(a), i, axis=axis), _raw=True)


def array_equal(a, b):
    try:
        A, Bb = _raw(a), _raw(b)
    except Exception:
        return False
    if A.shape != Bb.shape:
        return False
    return bool(core.band(*[x == y for x, y in zip(_flat(A), _flat(Bb))])) if A.size else True


def polyfit(x, y, deg, full=False):
    if deg != 1:
        raise NotEncodable('polyfit degree %r' % deg)
    xs, ys = _flat(x), _flat(y)
    n = len(xs)
    if n == 0:
        raise TypeError('expected non-empty vector for x')
    if n != len(ys):
        raise TypeError('expected x and y to have same length')
    xm, ym = _pmean(xs), _pmean(ys)
    sxx = _psum([(a - xm) * (a - xm) for a in xs])
    sxy = _psum([(a - xm) * (b - ym) for a, b in zip(xs, ys)])
    m = core.div(sxy, sxx)
    b0 = ym - m * xm
    coef = ndarray(_norm(_list1d([m, b0])), _raw=True)
    if not full:
        return coef
    if n > 2:
        rss = _psum([core.spow(b - (m * a + b0), 2) for a, b in zip(xs, ys)])
        res = ndarray(_norm(_list1d([rss])), _raw=True)
    else:
        res = ndarray(_np.zeros((0,), dtype=object), _raw=True)
    return coef, res, 2, None, None


def corrcoef(x, y):
    xs, ys = _flat(x), _flat(y)
    if len(xs) != len(ys):
        raise ValueError('all the input array dimensions except for the concatenation axis must match exactly')
    xm, ym = _pmean(xs), _pmean(ys)
    sxx = _psum([(a - xm) * (a - xm) for a in xs])
    syy = _psum([(b - ym) * (b - ym) for b in ys])
    sxy = _psum([(a - xm) * (b - ym) for a, b in zip(xs, ys)])
    if isinstance(sxx, S):
        sxx.nn = True
    if isinstance(syy, S):
        syy.nn = True
    r = core.div(sxy, core.ssqrt(sxx * syy))
    o = _np.empty((2, 2), dtype=object)
    o[0, 0] = o[1, 1] = Fr(1)
    o[0, 1] = o[1, 0] = r
    return ndarray(o, _raw=True)


def isclose(a, b, rtol=Fr(1, 100000), atol=Fr(1, 100000000), equal_nan=False):
    """|a - b| <= atol + rtol * |b|  (NumPy's definition, element-wise)"""
    rtol = to_fr(rtol) if not isinstance(rtol, (Fr, S)) else rtol
    atol = to_fr(atol) if not isinstance(atol, (Fr, S)) else atol

    def f(x, y):
        ax = core.sabs(x - y) if isinstance(x - y, S) else abs(x - y)
        ay = core.sabs(y) if isinstance(y, S) else abs(y)
        return ax <= atol + rtol * ay
    return _ew2(f, a, b)


def allclose(a, b, rtol=Fr(1, 100000), atol=Fr(1, 100000000)):
    return all_(isclose(a, b, rtol, atol))


class _Finfo:
    eps = Fr(1, 2 ** 52)


def finfo(t):
    return _Finfo


class _Errstate:
    def __init__(self, **k): pass
    def __enter__(self): return self
    def __exit__(self, *a): return False


# ----------------------------------------------------------------------------- modules handed to the loaded code

def make_numpy():
    m = types.ModuleType('numpy(symnp)')
    m.ndarray = ndarray
    for k, v in dict(array=array, asarray=asarray, zeros=zeros, empty=empty, full=full, zeros_like=zeros_like,
                     empty_like=empty_like, arange=arange, sum=sum_, mean=mean, average=average, median=median,
                     std=std, prod=prod, square=square, abs=absolute, absolute=absolute, fabs=absolute, sqrt=sqrt,
                     power=power, log=log, exp=exp, argmax=argmax, argmin=argmin, max=amax, min=amin, amax=amax,
                     amin=amin, ptp=ptp, maximum=_Maximum(), minimum=_Minimum(), all=all_, any=any_, dot=dot,
                     cross=cross, linalg=_Linalg, hypot=hypot, divide=divide, finfo=finfo, cumsum=cumsum, diff=diff,
                     argsort=argsort, sort=sort, unique=unique, where=where, argwhere=argwhere,
                     searchsorted=searchsorted, concatenate=concatenate, hstack=hstack, column_stack=column_stack,
                     append=append, delete=delete, array_equal=array_equal, isclose=isclose, allclose=allclose, polyfit=polyfit, corrcoef=corrcoef,
                     errstate=_Errstate, ones=ones, ones_like=ones_like, full_like=full_like, clip=clip, sign=sign, floor=floor, ceil=ceil, flip=flip,
                     nonzero=nonzero, count_nonzero=count_nonzero, vstack=vstack, stack=stack, isnan=isnan, isfinite=isfinite, copy=copy, linspace=linspace).items():
        setattr(m, k, v)
    m.nan = None
    m.float64 = float
    m.int64 = int
    from . import ndx
    ndx.install(m)

    def __getattr__(name):
        raise NotEncodable('numpy.%s is not modelled' % name)
    m.__getattr__ = __getattr__
    return m


def _copysign(a, b):
    if isinstance(b, S) or isinstance(a, S):
        mag = core.sabs(a) if isinstance(a, S) else abs(to_fr(a))
        return core.ite(b >= 0, mag, -mag) if isinstance(b, S) else (mag if to_fr(b) >= 0 else -mag)
    return abs(to_fr(a)) if to_fr(b) >= 0 else -abs(to_fr(a))


def make_math():
    m = types.ModuleType('math(symnp)')

    def fabs(v):
        if isinstance(v, ndarray):
            if v.d.size != 1:
                raise TypeError('only length-1 arrays can be converted to Python scalars')
            v = _scalar(v.d.reshape(-1)[0])
        return core.sabs(v) if isinstance(v, S) else abs(to_fr(v))

    def msqrt(v):
        if not isinstance(v, S) and to_fr(v) < 0:
            raise ValueError('math domain error')
        return core.ssqrt(v)

    def atan(v):
        if not isinstance(v, S) and to_fr(v) == 0:
            return Fr(0)
        return core.uf('atan', v)

    def misclose(a, b, rel_tol=Fr(1, 10 ** 9), abs_tol=Fr(0)):
        """|a - b| <= max(rel_tol * max(|a|, |b|), abs_tol)  (CPython's definition over the reals)"""
        a, b = (_scalar(v.d.reshape(-1)[0]) if isinstance(v, ndarray) else v for v in (a, b))
        a, b = (v if isinstance(v, S) else to_fr(v) for v in (a, b))
        rel_tol, abs_tol = (v if isinstance(v, S) else to_fr(v) for v in (rel_tol, abs_tol))
        ab = lambda v: core.sabs(v) if isinstance(v, S) else abs(v)
        mx = lambda u, v: core.smax(u, v) if isinstance(u, S) or isinstance(v, S) else max(u, v)
        return ab(a - b) <= mx(rel_tol * mx(ab(a), ab(b)), abs_tol)

    def mhypot(*v):
        return msqrt(builtins.sum((x * x for x in v), Fr(0)))

    m.isclose = misclose
    m.hypot = mhypot
    m.isnan = lambda v: False
    m.isinf = lambda v: False
    m.isfinite = lambda v: True
    m.fsum = lambda seq: builtins.sum(list(seq), Fr(0))
    m.pow = lambda a, b: core.spow(a if isinstance(a, S) else to_fr(a), b)
    def mprod(it, start=1):
        r = start
        for v in it:
            r = r * v
        return r

    m.prod = mprod
    m.dist = lambda p, q: msqrt(builtins.sum(((a - b) * (a - b) for a, b in zip(p, q)), Fr(0)))
    m.copysign = lambda a, b: _copysign(a, b)
    m.fabs = fabs
    m.sqrt = msqrt
    m.ceil = core.sceil
    m.floor = core.sfloor
    m.atan = atan
    m.isqrt = _math.isqrt
    m.pi = Fr(_math.pi)
    m.inf = None

    def __getattr__(name):
        raise NotEncodable('math.%s is not modelled' % name)
    m.__getattr__ = __getattr__
    return m


# ----------------------------------------------------------------------------- builtins rebound in loaded modules

def b_len(x):
    f = getattr(x, '__symlen__', None)
    if f is not None:
        return f()
    return builtins.len(x)


def b_int(x=0, *a):
    if isinstance(x, S):
        if getattr(core.CTX, 'integral', None) and core.CTX.integral(x):
            return x
        return core.sint(x)
    if isinstance(x, ndarray):
        if x.d.size != 1:
            raise TypeError('only length-1 arrays can be converted to Python scalars')
        return b_int(_scalar(x.d.reshape(-1)[0]))
    return builtins.int(x, *a)


def b_float(x=0):
    if isinstance(x, (S, Fr)):
        return x
    if isinstance(x, (bool, int, _np.integer)):
        return Fr(int(x))
    if isinstance(x, float):
        return to_fr(x)
    if isinstance(x, ndarray):
        if x.d.size != 1:
            raise TypeError('only length-1 arrays can be converted to Python scalars')
        return b_float(_scalar(x.d.reshape(-1)[0]))
    return to_fr(builtins.float(x))


def b_abs(x):
    if isinstance(x, S):
        return core.sabs(x)
    if isinstance(x, ndarray):
        return absolute(x)
    return builtins.abs(x)


def _b_minmax(two, py):
    def f(*args, **kw):
        if kw or not args:
            return py(*args, **kw)
        if len(args) == 1:
            seq = list(args[0])
        else:
            seq = list(args)
        if not any(isinstance(v, S) for v in seq):
            return py(seq)
        r = seq[0]
        for v in seq[1:]:
            r = two(r, v)
        return r
    return f


b_max = _b_minmax(core.smax, builtins.max)
b_min = _b_minmax(core.smin, builtins.min)


def b_round(x, nd=None):
    if isinstance(x, S):
        raise NotEncodable('round of symbolic')
    return builtins.round(x, nd) if nd is not None else builtins.round(x)


def b_sum(it, start=0):
    r = start
    for v in it:
        r = r + v
    return r


BUILTINS = dict(len=b_len, int=b_int, float=b_float, abs=b_abs, max=b_max, min=b_min, round=b_round, sum=b_sum)

"""symnp.fp -- L2: tiny kernels encoded bit-exactly in IEEE-754 binary64 (QF_FP), operation order copied from the source.

far_end_noise: linear_fit.shortest_distance_points(p, a, b) evaluated at p = b for the chord a = (0,0), b = (ux,uy):
    nrm = sqrt(ux*ux + uy*uy);  d = (ux/nrm, uy/nrm);  c = cross2d(p - a, d) = ux*(uy/nrm) - uy*(ux/nrm);  h = 0
    distance = hypot(0, c) = |c|
Query: integer-valued doubles 1 <= ux, uy <= bound with |c| >= 2^-52 (the guard `np.all(d < eps)` then fails on a perfectly
collinear segment).  endpoint_fit_noise: the end-point line through (x0,y0),(x0+w,0) evaluated at x0+w is != 0.
Models are only candidates: they are always replayed on the real package."""
import z3


def _intvar(s, name, lo, hi):
    F, rm = z3.Float64(), z3.RNE()
    v = z3.FP(name, F)
    s.add(z3.fpGEQ(v, z3.FPVal(lo, F)), z3.fpLEQ(v, z3.FPVal(hi, F)), v == z3.fpRoundToIntegral(rm, v))
    return v


def _fpval(m, v):
    x = m[v]
    return float(eval(str(z3.simplify(z3.fpToReal(x))).replace('/', '/1.0/') if False else str(z3.simplify(z3.fpToReal(x)))))


def far_end_noise(bound=64, max_models=4, timeout_ms=60000):
    F, rm = z3.Float64(), z3.RNE()
    s = z3.Solver()
    s.set('timeout', timeout_ms)
    ux, uy = _intvar(s, 'ux', 1, bound), _intvar(s, 'uy', 1, bound)
    nrm = z3.fpSqrt(rm, z3.fpAdd(rm, z3.fpMul(rm, ux, ux), z3.fpMul(rm, uy, uy)))
    dx, dy = z3.fpDiv(rm, ux, nrm), z3.fpDiv(rm, uy, nrm)
    c = z3.fpSub(rm, z3.fpMul(rm, ux, dy), z3.fpMul(rm, uy, dx))
    s.add(z3.fpGEQ(z3.fpAbs(c), z3.FPVal(2.0 ** -52, F)))
    out = []
    while len(out) < max_models:
        if s.check() != z3.sat:
            break
        m = s.model()
        a, b = _fpval(m, ux), _fpval(m, uy)
        out.append((int(a), int(b)))
        s.add(z3.Or(ux != m[ux], uy != m[uy]))
    return out


def endpoint_fit_noise(bound=16, max_models=6, timeout_ms=60000):
    """(x0, w, y0): linear_fit on [(x0,y0) .. (x0+w,0)]: m=(y0-0)/(x0-x2), b=y0-m*x0, y_hat(x2)=x2*m+b != 0"""
    F, rm = z3.Float64(), z3.RNE()
    s = z3.Solver()
    s.set('timeout', timeout_ms)
    x0, w, y0 = _intvar(s, 'x0', 0, bound), _intvar(s, 'w', 2, bound), _intvar(s, 'y0', 1, bound)
    x2 = z3.fpAdd(rm, x0, w)
    m_ = z3.fpDiv(rm, z3.fpSub(rm, y0, z3.FPVal(0, F)), z3.fpSub(rm, x0, x2))
    b = z3.fpSub(rm, y0, z3.fpMul(rm, m_, x0))
    yh2 = z3.fpAdd(rm, z3.fpMul(rm, x2, m_), b)
    s.add(z3.Not(z3.fpIsZero(yh2)))
    out = []
    while len(out) < max_models:
        if s.check() != z3.sat:
            break
        m = s.model()
        out.append((int(_fpval(m, x0)), int(_fpval(m, w)), int(_fpval(m, y0))))
        s.add(z3.Or(x0 != m[x0], w != m[w], y0 != m[y0]))
    return out

"""symnp.selftest -- translator validation.

(1) every modelled NumPy function is run on concrete rational inputs through the shim and through the
    real NumPy and the values are compared;
(2) a table of calls taken from the repository's own unit tests (inputs of test/*.py) is pushed through
    the shim-loaded copy of the repository and through the real package and must agree.
A disagreement makes the check exit 2 (harness error), never 'violated'."""
from fractions import Fraction as Fr
import math, numpy as np, importlib
from . import core, nd, loader


def _tofloat(v):
    if isinstance(v, nd.ndarray):
        return np.array([_tofloat(x) for x in v.d.reshape(-1)], dtype=float).reshape(v.d.shape) if v.d.dtype == object else v.d
    if isinstance(v, (tuple, list)):
        return [_tofloat(x) for x in v]
    if isinstance(v, Fr):
        return float(v)
    if isinstance(v, core.S):
        # concrete algebraic value (sqrt of a non-square): evaluate numerically
        return _eval_S(v)
    return v


def _eval_S(s):
    c = core.CTX
    tot = 0.0
    for m, co in s.p.items():
        t = float(co)
        for a, e in m:
            t *= _eval_atom(a) ** e
        tot += t
    return tot


def _eval_poly(p):
    return _eval_S(core.S(p)) if p else 0.0


def _eval_atom(a):
    at = core.CTX.atoms[a]
    k = at[0]
    if k == 'sqrt':
        return math.sqrt(_eval_poly(at[1]))
    if k == 'div':
        return _eval_poly(at[1]) / _eval_poly(at[2])
    if k == 'abs':
        return abs(_eval_poly(at[1]))
    if k == 'max':
        return max(_eval_poly(at[1]), _eval_poly(at[2]))
    if k == 'min':
        return min(_eval_poly(at[1]), _eval_poly(at[2]))
    if k == 'uf':
        f = dict(log=math.log, exp=math.exp, atan=math.atan)[at[1]]
        return f(_eval_poly(at[2]))
    raise ValueError(k)


def _same(a, b, tol=1e-9):
    a, b = _tofloat(a), b
    if isinstance(b, tuple) or isinstance(a, list) and isinstance(b, (tuple, list)):
        return len(a) == len(b) and all(_same(x, y, tol) for x, y in zip(a, b))
    if a is None or b is None:
        return a is b
    try:
        A, Bb = np.asarray(a, dtype=float), np.asarray(b, dtype=float)
    except Exception:
        return False
    if A.shape != Bb.shape:
        return False
    return bool(np.all(np.abs(A - Bb) <= tol * (1 + np.abs(Bb))))


def _fr(x):
    if isinstance(x, list):
        return [_fr(v) for v in x]
    if isinstance(x, float):
        return Fr(x)
    return x


NP_CALLS = [
    ('sum', [[1.5, 2, -3.25]]), ('sum', [[[1, 2.5], [3, 4]]], dict(axis=0)), ('sum', [[[1, 2.5], [3, 4]]], dict(axis=1)),
    ('mean', [[1, 2, 4]]), ('mean', [[0.5, 0.25]]), ('average', [[1, 2, 4]]), ('average', [[1.0, 2, 4]], dict(weights=[1, 2, 0.5])),
    ('median', [[3, 1.5, 2]]), ('median', [[3, 1, 2, 10]]), ('std', [[1, 2, 4.5]]), ('prod', [[1, 2, 4.5]]),
    ('square', [[1.5, -2]]), ('abs', [[1.5, -2]]), ('absolute', [[-1, 2]]), ('fabs', [[-1.5, 2]]), ('sqrt', [[4, 2.25, 2]]),
    ('power', [[1.5, 2], 2]), ('log', [[1, 2.5]]), ('exp', [[0, -1.5]]),
    ('argmax', [[1, 3, 3, 2]]), ('argmin', [[2, 1, 1, 3]]), ('max', [[1, 3.5, 2]]), ('min', [[1, 3.5, 0.5]]), ('amax', [[1, 3.5, 2]]),
    ('max', [[[1, 5], [3, 2]]], dict(axis=0)), ('min', [[[1, 5], [3, 2]]], dict(axis=0)), ('ptp', [[1, 5, 3]]),
    ('maximum', [[1, 5, 3], [2, 2, 2]]), ('hypot', [[3, 1], [4, 1]]), ('divide', [[3, 1], [4, 8]]), ('divide', [[3, 1], 5]),
    ('all', [[True, False]]), ('any', [[True, False]]), ('dot', [[1, 2, 3], [4, 5, 6.5]]), ('dot', [[[1, 2], [3, 4]], [0.5, 2]]),
    ('cumsum', [[1, 2, 3.5]]), ('diff', [[1, 4, 9.5]]), ('diff', [[[1, 2], [4, 8], [9, 9]]], dict(axis=0)),
    ('argsort', [[3, 1, 2, 1]]), ('unique', [[3, 1, 2, 1]]), ('concatenate', [([1, 2], [3.5], [0, 4])]), ('hstack', [([0], [3, 4], [9])]),
    ('column_stack', [([1, 2], [3.5, 4])]), ('append', [[[1, 2]], [[3, 4.5]]], dict(axis=0)), ('delete', [[1, 2, 3, 4], 2]),
    ('array_equal', [[1, 2], [1, 2]]), ('array_equal', [[1, 2], [1, 3]]), ('array_equal', [[], [1]]),
    ('searchsorted', [[1, 3, 5, 7], [3, 6]]), ('zeros', [3]), ('arange', [4]), ('full', [3, True]),
    ('corrcoef', [[1, 2, 3, 5], [2, 1, 4.5, 3]]), ('isclose', [[1, 2.000001, 3], [1.00000001, 2, 3.1]]), ('ones', [3]), ('clip', [[-1, 0.5, 3], 0, 1]), ('sign', [[-2, 0, 3.5]]), ('floor', [[-1.5, 2.25]]),
    # second tier (symnp.ndx)
    ('flatnonzero', [[0, 2, 0, 1.5]]), ('take', [[1.5, 2, 3, 4], [3, 0]]), ('ravel', [[[1, 2], [3.5, 4]]]), ('var', [[1, 2, 4.5]]),
    ('logical_and', [[True, False, True], [True, True, False]]), ('logical_or', [[True, False, False], [False, False, True]]), ('logical_not', [[True, False]]),
    ('less', [[1, 2.5, 3], [2, 2.5, 1]]), ('greater_equal', [[1, 2.5, 3], 2.5]), ('equal', [[1, 2.5], [1, 3]]), ('isin', [[1, 2.5, 3], [3, 1]]),
    ('outer', [[1, 2], [3, 0.5]]), ('matmul', [[[1, 2], [3, 4]], [[0.5, 1], [2, 1]]]), ('einsum', ['ij,ij->i', [[1, 2], [3, 4]], [[0.5, 1], [2, 1]]]),
    ('einsum', ['i,i->', [1, 2, 3], [0.5, 1, 2]]), ('trapezoid', [[1, 2, 4.5], [0, 1, 3]]), ('cumprod', [[1, 2, 3.5]]), ('insert', [[1, 2, 4], 1, 7.5]),
    ('roll', [[1, 2, 3.5], 1]), ('tile', [[1, 2.5], 2]), ('repeat', [[1, 2.5], 2]), ('add', [[1, 2], [0.5, 1]]), ('subtract', [[1, 2], 0.5]), ('multiply', [[1, 2], [0.5, 3]]),
    ('negative', [[1, -2.5]]), ('reciprocal', [[2, 0.5]]), ('atleast_1d', [[1, 2.5]]), ('transpose', [[[1, 2], [3.5, 4]]]), ('squeeze', [[[1, 2.5]]]),
    ('ediff1d', [[1, 4, 9.5]]),
    ('array', [[1, 2, 3]], dict(dtype=float)), ('zeros_like', [[1.5, 2]]), ('full_like', [[1.5, 2], 3]), ('arange', [1, 7, 2]),
    ('ceil', [[-1.5, 2.25]]), ('flip', [[1, 2, 3.5]]), ('count_nonzero', [[0, 2, 0, 1.5]]), ('vstack', [([1, 2], [3, 4.5])]), ('linspace', [0, 1, 5]),
]


def _np_checks(L, fails):
    n = 0
    core.CTX = core.Ctx()
    for ent in NP_CALLS:
        name, args = ent[0], ent[1]
        kw = ent[2] if len(ent) > 2 else {}
        try:
            sargs = [_fr(a) if not isinstance(a, tuple) else tuple(_fr(list(x)) for x in a) for a in args]
            skw = {k: _fr(v) for k, v in kw.items()}
            got = getattr(L.np, name)(*sargs, **skw)
            rargs = [np.array(a, dtype=float) if isinstance(a, list) and name not in ('all', 'any', 'argsort', 'unique', 'delete', 'searchsorted', 'take', 'select') else
                     (tuple(np.array(x, dtype=float) for x in a) if isinstance(a, tuple) else a) for a in args]
            want = getattr(np, name)(*rargs, **kw)
            n += 1
            if not _same(got, want):
                fails.append('numpy.%s%r: shim %r vs numpy %r' % (name, args, _tofloat(got), want))
        except Exception as e:
            fails.append('numpy.%s%r raised %s: %s' % (name, args, type(e).__name__, e))
    # polyfit(full=True)
    x, y = [0, 1, 2, 4], [1, 3, 2, 5.5]
    c1, r1 = L.np.polyfit(_fr(x), _fr(y), 1, full=True)[:2]
    c2, r2 = np.polyfit(x, y, 1, full=True)[:2]
    n += 1
    if not (_same(c1, c2) and _same(r1, r2)):
        fails.append('polyfit differs')
    # math.isclose / hypot (CPython's definitions)
    import math as _m
    for a, b, kw in [(1.0, 1.0 + 5e-10, {}), (1.0, 1.0 + 5e-9, {}), (0.0, 1e-12, {}), (0.0, 1e-12, dict(abs_tol=1e-9)), (1.7e9, 1.7e9 + 1, {}), (-3.0, -3.0, {}), (100.0, 101.0, dict(rel_tol=0.01))]:
        n += 1
        got = bool(L.math.isclose(_fr(a), _fr(b), **{k: _fr(v) for k, v in kw.items()}))
        if got != _m.isclose(a, b, **kw):
            fails.append('math.isclose(%r, %r, %r): shim %r' % (a, b, kw, got))
    n += 1
    if not _same(L.math.hypot(Fr(3), Fr(4)), 5.0):
        fails.append('math.hypot differs')
    # exceptions that the repository depends on
    for f, shim_args, real_args in [('cross', ([Fr(1), Fr(2)], [[Fr(1), Fr(2)], [Fr(3), Fr(4)]]), ([1., 2.], [[1., 2.], [3., 4.]]))]:
        def exc_of(fn, a):
            try:
                fn(*a)
                return None
            except Exception as e:
                return type(e).__name__
        n += 1
        e1, e2 = exc_of(getattr(L.np, f), shim_args), exc_of(getattr(np, f), real_args)
        if e1 != e2:
            fails.append('numpy.%s exception: shim %s vs numpy %s' % (f, e1, e2))
    return n


P5 = [[1, 5], [2, 5], [3, 6], [4, 6], [5, 6]]
P6 = [[0, 3], [1, 3], [2, 3], [3, 2], [4, 1], [5, 0]]
P11 = [[2, 0], [3, 1], [4, 2], [5, 2], [6, 2], [7, 3], [8, 4], [9, 3], [10, 2], [11, 1], [12, 0]]
P10 = [[1.0, 1.0], [2.0, 0.5], [3.0, 0.3333], [4.0, 0.25], [5.0, 0.2], [6.0, 0.1667], [7.0, 0.1429], [8.0, 0.125], [9.0, 0.1111], [10.0, 0.1]]
P11b = [[2, 0], [3, 1.5], [4, 2], [5, 2.25], [6, 2], [7, 3.5], [8, 4], [9, 3], [10, 2.5], [11, 0.75], [13, 0]]
PH = [[0, 0], [1, 1], [2, 2], [4, 4], [0, 2], [1, 2], [3, 1], [3, 3], [0.5, 3]]

# (module, function, args builder(np-like array ctor, module namespace) -> (args, kwargs))
REPO_CALLS = [
    ('rdp', 'rdp', lambda A, L: ((A(P5),), {})), ('rdp', 'rdp', lambda A, L: ((A(P6),), {})), ('rdp', 'rdp', lambda A, L: ((A(P11),), {})),
    ('rdp', 'grdp', lambda A, L: ((A(P5),), {})), ('rdp', 'grdp', lambda A, L: ((A(P11),), dict(t=0.05))),
    ('rdp', 'rdp_fixed', lambda A, L: ((A(P6), 3), {})), ('rdp', 'rdp_fixed', lambda A, L: ((A(P6), 4), {})),
    ('rdp', 'rdp_fixed', lambda A, L: ((A(P11b), 6), dict(order=L.rdp.Order.triangle))),
    ('rdp', 'rdp_fixed', lambda A, L: ((A(P11b), 5), dict(order=L.rdp.Order.area))),
    ('rdp', 'mp_grdp', lambda A, L: ((A(P11),), dict(t=0.5, min_points=4))),
    ('rdp', 'compute_removed_points', lambda A, L: ((A(P5), L.np.array([0, 1, 2, 4])), {})),
    ('clustering', 'single_linkage', lambda A, L: ((A([[1, 0], [2, 0], [5, 0], [6, 0], [10, 0]]), 0.2), {})),
    ('clustering', 'complete_linkage', lambda A, L: ((A([[1, 0], [2, 0], [3, 0], [6, 0], [10, 0]]), 0.2), {})),
    ('clustering', 'centroid_linkage', lambda A, L: ((A([[1, 0], [2, 0], [3, 0], [6, 0], [10, 0]]), 0.2), {})),
    ('clustering', 'average_linkage', lambda A, L: ((A([[1, 0], [2, 0], [3, 0], [6, 0], [10, 0]]), 0.2), {})),
    ('convex_hull', 'graham_scan', lambda A, L: ((A(PH),), {})),
    ('curvature', 'knee', lambda A, L: ((A(P10),), {})), ('curvature', 'multi_knee', lambda A, L: ((A(P10),), {})),
    ('dfdt', 'knee', lambda A, L: ((A(P10),), {})), ('dfdt', 'multi_knee', lambda A, L: ((A(P10),), {})),
    ('lmethod', 'knee', lambda A, L: ((A(P10),), {})), ('lmethod', 'knee', lambda A, L: ((A(P10),), dict(fit=L.lmethod.Fit.best_fit, it=L.lmethod.Refinement.none))),
    ('zmethod', 'knees', lambda A, L: ((A(P10),), {})),
    ('evaluation', 'compute_global_cost', lambda A, L: ((A(P11), L.np.array([0, 4, 10])), {})),
    ('evaluation', 'compute_global_cost', lambda A, L: ((A(P11), L.np.array([0, 6, 10])), dict(cost=L.metrics.Metrics.smape))),
    ('evaluation', 'compute_global_cost', lambda A, L: ((A(P11), L.np.array([0, 6, 10])), dict(cost=L.metrics.Metrics.r2))),
    ('evaluation', 'compute_global_rmse', lambda A, L: ((A(P11), L.np.array([0, 3, 10])), {})),
    ('evaluation', 'mip', lambda A, L: ((A(P11), L.np.array([0, 2, 6, 10])), {})),
    ('evaluation', 'cm', lambda A, L: ((A(P6), L.np.array([2, 4]), A([[2, 3], [5, 0]])), dict(t=0.1))),
    ('evaluation', 'mae', lambda A, L: ((A(P6), L.np.array([2, 4]), A([[2, 3], [5, 0]])), {})),
    ('evaluation', 'rmspe', lambda A, L: ((A(P6), L.np.array([2, 4]), A([[2, 3], [5, 1]])), {})),
    ('knee_ranking', 'rect_overlap', lambda A, L: ((A([0, 0]), A([2, 2]), A([1, 1]), A([3, 3])), {})),
    ('knee_ranking', 'distances', lambda A, L: ((A([0, 0]), A([[1, 1], [3, 4]])), {})),
    ('knee_ranking', 'rank', lambda A, L: ((A([0.5, 0.1, 0.9]),), {})),
    ('knee_ranking', 'smooth_ranking', lambda A, L: ((A(P10), L.np.array([2, 3, 5]), L.knee_ranking.ClusterRanking.linear), {})),
    ('postprocessing', 'filter_corner_knees', lambda A, L: ((A([[0, 5], [1, 5], [2, 1], [3, 1], [4, 1], [5, 0], [6, 0]]), L.np.array([2, 5])), {})),
    ('postprocessing', 'filter_worst_knees', lambda A, L: ((A(P6), L.np.array([1, 3, 2, 4])), {})),
    ('postprocessing', 'filter_clusters', lambda A, L: ((A(P10), L.np.array([1, 2, 5, 6]), L.clustering.single_linkage, 0.25, L.knee_ranking.ClusterRanking.left), {})),
    ('linear_fit', 'shortest_distance_points', lambda A, L: ((A(P6), A(P6[0]), A(P6[-1])), {})),
    ('linear_fit', 'r2', lambda A, L: ((A([1, 2, 3, 4, 5, 6]), A([1, 2.5, 3, 4.5, 4, 7])), {})),
    ('linear_fit', 'linear_fit_residuals_points', lambda A, L: ((A(P10),), {})),
    ('metrics', 'smape', lambda A, L: ((A([1, 2, 3.5]), A([1.5, 2, 3])), {})),
    ('metrics', 'rpd', lambda A, L: ((A([1, 2, 3.5]), A([1.5, 2, 3])), {})),
    ('metrics', 'rmspe', lambda A, L: ((A([1, 2, 3.5]), A([1.5, 2, 3])), {})),
    ('metrics', 'rmsle', lambda A, L: ((A([1, 2, 3.5]), A([1.5, 2, 3])), {})),
    ('metrics', 'r2', lambda A, L: ((A([1, 2, 3.5]), A([1.5, 2, 3])), {})),
]


def _repo_checks(L, fails, subset=None, notenc=None):
    R = loader.Real()
    n = 0
    calls = REPO_CALLS if subset is None else REPO_CALLS[::subset]
    for mod, fn, build in calls:
        core.CTX = core.Ctx(nra_at_decide=False)
        try:
            def As(x):
                return L.np.array(_fr([[float(v) if isinstance(v, float) else v for v in r] if isinstance(r, list) else (float(r) if isinstance(r, float) else r) for r in x]))

            def Ar(x):
                return np.array(x, dtype=float)
            sa, sk = build(As, L)
            ra, rk = build(Ar, R)
        except Exception as e:
            fails.append('%s.%s: cannot build the arguments: %r' % (mod, fn, e))
            continue
        # both sides are executed separately: an exception is compared by type, a value by value
        try:
            want, wexc = getattr(getattr(R, mod), fn)(*ra, **rk), None
        except Exception as e2:
            want, wexc = None, type(e2).__name__
        try:
            got, gexc = getattr(getattr(L, mod), fn)(*sa, **sk), None
        except core.NotEncodable as e:
            # a construct the shim does not model: paths that reach it are reported as NOT-ENCODABLE by the driver (inconclusive, not an error)
            if notenc is not None:
                notenc.append('%s.%s: %s' % (mod, fn, e))
            else:
                fails.append('%s.%s aborted in the shim: %r' % (mod, fn, e))
            continue
        except core.PathAbort as e:
            # division by a concrete zero, step limit, ...: outcomes the driver classifies per path (domain / steplimit); not a translator fault
            if notenc is not None:
                notenc.append('%s.%s: %r' % (mod, fn, e))
            else:
                fails.append('%s.%s aborted in the shim: %r' % (mod, fn, e))
            continue
        except Exception as e:
            got, gexc = None, type(e).__name__
        n += 1
        if gexc != wexc:
            fails.append('%s.%s: shim %s, real package %s' % (mod, fn, 'raised ' + gexc if gexc else 'returned a value', 'raised ' + wexc if wexc else 'returned a value'))
        elif gexc is None and not _same(got, want, tol=1e-7):
            fails.append('%s.%s: shim %r vs real %r' % (mod, fn, _tofloat(got), want))
    return n


def run(L, quick=True):
    fails = []
    n = _np_checks(L, fails)
    notenc = []
    n += _repo_checks(L, fails, subset=None, notenc=notenc)
    return dict(checks=n, failures=fails, not_encodable=notenc)


if __name__ == '__main__':
    import sys
    r = run(loader.load(), quick=False)
    print('selftest: %d checks, %d failures' % (r['checks'], len(r['failures'])))
    for f in r['failures']:
        print('  FAIL', f)
    for f in r['not_encodable']:
        print('  NOT-ENCODABLE', f)
    sys.exit(2 if r['failures'] else 0)

"""symnp.hapi -- the handle a property harness talks to.

A harness body `run(h, case)` is written once and executed in two modes:
  * symbolic (HSym): inputs are solver variables, the repository code is the shim-loaded copy,
    h.prove() asks the solver whether the claim holds for *all* values on the current path;
  * concrete (HConc): inputs come from a witness (exact rationals of float64 values), the code is the
    real installed package, h.prove() evaluates the claim.  Used to replay counterexamples and to
    validate explored paths against the implementation.
"""
from fractions import Fraction as Fr
import math, numpy as _np
from . import core, nd


class PreconditionFailed(Exception):
    pass


class HSym:
    sym = True

    def __init__(self, c, L, case):
        self.c = c
        self.L = L
        self.np = L.np
        self.case = case

    def real(self, name, nn=False):
        return self.c.var(name, nn)

    def integer(self, name, lo=None):
        return self.c.ivar(name, lo)

    def array(self, x):
        return self.np.array(x)

    def num(self, v):
        return v

    def iarray(self, x):
        return nd.ndarray(_np.array(list(x), dtype=_np.int64), _raw=True)

    def argument(self, a):
        """register an array as a caller-owned argument (purity log)"""
        nd.register_argument(a)
        return a

    def assume(self, cnd, note=None):
        self.c.assume(cnd, note)

    def prove(self, cnd, label):
        return self.c.prove(cnd, label)

    def eq(self, a, b, rel=None):
        return a == b

    def le(self, a, b):
        return a <= b

    def ints(self, arr):
        return [int(v) for v in (arr.tolist() if hasattr(arr, 'tolist') else arr)]

    def vals(self, arr):
        return list(arr.flat) if isinstance(arr, nd.ndarray) else list(arr)

    def fresh_state(self):
        """put module-level containers and mutable default arguments of the analysed code back to their load-time value"""
        self.L.reset_state()

    def writes(self):
        return list(nd.WRITE_LOG)

    def tick(self, n=1):
        self.c.tick(n)

    def count(self, name):
        return self.c.count(name)


class HConc:
    sym = False

    def __init__(self, L, case, inputs, rel=1e-9, abs_=1e-12):
        self.L = L
        self.np = L.np
        self.case = case
        self.inputs = inputs
        self.failed = []
        self.proved = []
        self.rel = rel
        self.abs = abs_
        self._args = []
        self.counters = {}

    def real(self, name, nn=False):
        if name not in self.inputs:
            raise PreconditionFailed('witness lacks %s' % name)
        v = self.inputs[name]
        v = Fr(v) if not isinstance(v, Fr) else v
        # the value the implementation will actually see
        return Fr(float(v))

    def integer(self, name, lo=None):
        if name not in self.inputs:
            raise PreconditionFailed('witness lacks %s' % name)
        v = Fr(self.inputs[name])
        if v.denominator != 1 or (lo is not None and v < lo):
            raise PreconditionFailed('not an integer >= %s' % lo)
        return int(v)

    def array(self, x):
        def conv(v):
            if isinstance(v, (list, tuple)):
                return [conv(e) for e in v]
            if isinstance(v, _np.ndarray):
                return v.tolist()
            return float(v)
        return _np.array(conv(x), dtype=float)

    def num(self, v):
        """scalar handed to the implementation: a float64"""
        return float(v)

    def iarray(self, x):
        return _np.array(list(x), dtype=_np.int64)

    def argument(self, a):
        self._args.append((a, a.copy()))
        return a

    def assume(self, cnd, note=None):
        if not bool(cnd):
            raise PreconditionFailed(note or 'assumption')

    def prove(self, cnd, label):
        ok = bool(cnd)
        (self.proved if ok else self.failed).append(label)
        return 'proved' if ok else 'violated'

    def eq(self, a, b, rel=None):
        a, b = float(a), float(b)
        if a == b:
            return True
        if math.isnan(a) or math.isnan(b):
            return False
        return abs(a - b) <= self.abs + (rel or self.rel) * max(abs(a), abs(b))

    def le(self, a, b):
        a, b = float(a), float(b)
        return a <= b + self.abs + self.rel * max(abs(a), abs(b))

    def ints(self, arr):
        return [int(v) for v in (arr.tolist() if hasattr(arr, 'tolist') else arr)]

    def vals(self, arr):
        return [float(v) for v in _np.asarray(arr, dtype=float).reshape(-1)]

    def fresh_state(self):
        """real package: re-import the (non-jitted) modules so that state kept between calls starts from scratch"""
        import sys, importlib
        for name in sorted(sys.modules):
            if name.startswith('kneeliverse.') and name not in ('kneeliverse.metrics',):
                try:
                    importlib.reload(sys.modules[name])
                except Exception:
                    pass

    def writes(self):
        out = []
        for a, before in self._args:
            if a.shape != before.shape or not _np.array_equal(a, before, equal_nan=True):
                out.append('argument modified')
        return out

    def tick(self, n=1):
        pass

    def count(self, name):
        self.counters[name] = self.counters.get(name, 0) + 1
        return self.counters[name]


def fr_inputs(d):
    return {k: Fr(v) for k, v in d.items()}

"""symnp.main -- CLI driver:  python -m symnp.main <PROP> --tier quick|thorough  |  --replay <file>

exit 0: property held on everything explored (INCONCLUSIVE / NOT-ENCODABLE / UNCONFIRMED lines possible)
exit 1: a counterexample was found by the solver AND reproduced on the real package (VIOLATION line)
exit 2: harness error (shim self-test failed, loader cannot parse /repo, internal error)
"""
import sys, os, json, time, argparse, importlib, hashlib, signal, traceback, subprocess, random
import multiprocessing as mp
from fractions import Fraction as Fr

ROOT = os.path.dirname(os.path.dirname(os.path.abspath(__file__)))
sys.path.insert(0, ROOT)
from symnp import core, nd, loader, hapi   # noqa: E402

EVID = os.environ.get('VERIF_EVIDENCE_DIR') or os.path.join(ROOT, 'evidence')      # the override is used when a seeded change is evaluated in a scratch tree
REPL = os.path.join(ROOT, 'replays')
KNOWN = os.path.join(ROOT, 'known_findings.json')

DEFAULT_CFG = dict(
    quick=dict(qtimeout_ms=10000, max_paths=20000, case_wall_s=100, budget_s=150, step_limit=3000,
               path_wall_s=60, validate_per_case=2, nra_at_decide=True),
    thorough=dict(max_cases=1500, qtimeout_ms=60000, max_paths=400000, case_wall_s=700, budget_s=900, step_limit=6000,
                  path_wall_s=300, validate_per_case=10 ** 9, nra_at_decide=True),
)

_L = None
_R = None


def loaded():
    global _L
    if _L is None:
        _L = loader.load()
    return _L


def real():
    global _R
    if _R is None:
        _R = loader.Real()
    return _R


class _Alarm(core._Alarm):
    pass


class ConcreteTimeout(BaseException):
    pass


def run_concrete(hm, case, inputs, timeout_s=60):
    """run the harness body on the real package with concrete inputs.
    returns dict(status='ok'|'precondition'|'exc'|'timeout', failed=[labels], exc_type, signature)"""
    h = hapi.HConc(real(), case, inputs)
    out = dict(status='ok', failed=[], exc_type=None, signature=None)

    def hdl(sig, frm):
        raise ConcreteTimeout()
    old = signal.signal(signal.SIGALRM, hdl)
    signal.setitimer(signal.ITIMER_REAL, timeout_s)
    try:
        out['signature'] = hm.run(h, case)
    except hapi.PreconditionFailed as e:
        out['status'] = 'precondition'
        out['detail'] = str(e)
    except ConcreteTimeout:
        out['status'] = 'timeout'
    except core.PathAbort as e:
        out['status'] = 'exc'
        out['exc_type'] = type(e).__name__
        out['detail'] = repr(e)
    except Exception as e:
        out['status'] = 'exc'
        out['exc_type'] = type(e).__name__
        out['detail'] = '%s: %s' % (type(e).__name__, e)
        tb = traceback.extract_tb(e.__traceback__)
        out['where'] = ['%s:%d %s' % (os.path.basename(f.filename), f.lineno, f.name) for f in tb[-3:]]
    finally:
        signal.setitimer(signal.ITIMER_REAL, 0)
        signal.signal(signal.SIGALRM, old)
    out['failed'] = list(h.failed)
    out['n_proved'] = len(h.proved)
    return out


def confirms(cand, conc):
    """does the concrete run `conc` reproduce the symbolic candidate violation `cand`?"""
    k = cand['kind']
    if conc['status'] == 'precondition':
        return False
    if k == 'obligation':
        if conc['status'] == 'timeout' and 'terminate' in cand['label']:
            return True
        return cand['label'] in conc['failed']
    if k == 'exc':
        return conc['status'] == 'exc' and conc['exc_type'] == cand.get('exc_type')
    if k in ('steplimit', 'timeout'):
        return conc['status'] == 'timeout' or 'terminates' in conc['failed'] or 'steps' in conc['failed']
    if k == 'domain':
        return conc['status'] == 'exc' or bool(conc['failed'])
    return False


def _json_sig(x):
    try:
        json.dumps(x)
        return x
    except TypeError:
        return repr(x)


def run_case(args):
    modname, case, cfg, deadline = args
    t0 = time.time()
    res = dict(case=case, paths=0, stats={}, outcomes={}, candidates=[], unknown=[], notenc=[], samples=[],
               validated=0, validation_mismatch=0, validation_skipped=0, truncated=False, wall_s=0.0,
               assumptions=[], obligations=0, discharged=0, writes=[])
    if time.time() > deadline:
        res['skipped'] = True
        return res
    try:
        hm = importlib.import_module('harness.' + modname)
        L = loaded()
        c = core.Ctx(qtimeout_ms=cfg['qtimeout_ms'], step_limit=case.get('step_limit', cfg['step_limit']),
                     path_wall_s=cfg['path_wall_s'], nra_at_decide=case.get('nra_at_decide', cfg['nra_at_decide']),
                     divzero=case.get('divzero', 'fork'), int_range=tuple(case.get('int_range', (-16, 16))))
        want_models = cfg['validate_per_case']

        for name in ('rdp', 'evaluation', 'postprocessing', 'knee_ranking', 'clustering', 'convex_hull', 'curvature', 'dfdt', 'menger', 'lmethod', 'kneedle', 'zmethod', 'multi_knee', 'linear_fit', 'metrics'):
            try:
                getattr(L, name)
            except Exception:
                pass
        if not hasattr(L, '_state'):
            L.snapshot_state()

        def fn(cx):
            nd.reset_write_log()
            L.reset_state()
            h = hapi.HSym(cx, L, case)
            sig = hm.run(h, case)
            cx.last_sig = sig
            return sig
        wall = min(cfg['case_wall_s'], max(5.0, deadline - time.time()))
        recs = core.explore(fn, c, max_paths=cfg['max_paths'], wall_s=wall)
        res['truncated'] = bool(getattr(c, 'truncated', False))
        allowed = getattr(hm, 'allowed_outcome', lambda case, rec: False)
        nval = 0
        for rec in recs:
            res['paths'] += 1
            oc = rec['outcome']
            res['outcomes'][oc] = res['outcomes'].get(oc, 0) + 1
            for ob in rec['obligations']:
                if ob['status'] == 'violated':
                    res['candidates'].append(dict(kind='obligation', label=ob['label'], inputs=ob.get('nice') or ob['model'],
                                                  alt_inputs=ob['model'] if ob.get('nice') else None, trace=rec['trace']))
                elif ob['status'] == 'unknown':
                    res['unknown'].append(dict(label=ob['label'], trace=rec['trace'][:40]))
                    if ob.get('probe'):
                        res['candidates'].append(dict(kind='obligation', label=ob['label'], inputs=ob['probe'], alt_inputs=None, trace=rec['trace'], from_unknown=True))
            if oc == 'notenc':
                res['notenc'].append(rec['exc'])
            elif oc == 'solver-timeout':
                res['unknown'].append(dict(label='path abandoned: solver time exceeded the path budget', trace=rec['trace'][:40]))
                res['solver_timeouts'] = res.get('solver_timeouts', 0) + 1
            elif oc != 'ok' and not allowed(case, rec):
                res['candidates'].append(dict(kind=oc, label=oc, exc=rec.get('exc'), exc_type=rec.get('exc_type'),
                                              where=rec.get('exc_where'), inputs=rec.get('nice') or rec.get('witness'),
                                              alt_inputs=rec.get('witness') if rec.get('nice') else None,
                                              trace=rec['trace'], feasibility=rec.get('feasibility')))
            if len(res['samples']) < 2:
                res['samples'].append(dict(case=case, decisions=rec['trace'][:30], outcome=oc,
                                           result=_json_sig(rec.get('result')),
                                           obligations=[(o['label'], o['status']) for o in rec['obligations']][:8]))
        # validate explored paths against the implementation: re-run a model of each path condition
        if want_models and getattr(hm, 'VALIDATE_PATHS', True) and not case.get('no_validate'):
            todo = [r for r in recs if r['outcome'] == 'ok']
            if len(todo) > want_models:
                rnd = random.Random(case.get('seed', 0))
                todo = rnd.sample(todo, want_models)
            for rec in todo:
                if time.time() - t0 > cfg['case_wall_s'] * 1.5:
                    break
                c.begin(rec['trace'])
                core.CTX = c
                try:
                    with core._Alarm(c.path_wall_s):
                        sig = fn(c)
                    r, m = c.path_model(timeout_ms=3000)
                    if r != 'sat':
                        res['validation_skipped'] += 1
                        continue
                    w = c.nice_witness(None, timeout_ms=1500) or c.witness(m)
                except core.PathAbort:
                    res['validation_skipped'] += 1
                    continue
                conc = run_concrete(hm, case, w, timeout_s=60)
                if conc['status'] == 'precondition':
                    res['validation_skipped'] += 1
                elif conc['status'] == 'ok' and not conc['failed'] and _json_sig(conc['signature']) == _json_sig(sig):
                    res['validated'] += 1
                else:
                    res['validation_mismatch'] += 1
                    if len(res.setdefault('mismatch_samples', [])) < 3:
                        res['mismatch_samples'].append(dict(inputs=w, symbolic=_json_sig(sig), concrete=conc))
        # confirm candidates on the real package (in-process; the driver re-confirms through --replay)
        seen = {}
        for cand in res['candidates']:
            key = (cand['kind'], cand['label'], cand.get('exc_type'))
            cand['confirmed'] = False
            if cand['inputs'] is None:
                cand['inputs'] = {}
            st = seen.setdefault(key, dict(confirmed=0, tried=0))
            if st['confirmed'] >= 1 or st['tried'] >= 8:
                cand['duplicate'] = True       # same clause already confirmed (or tried often) in this structural case
                continue
            st['tried'] += 1
            tries = [cand['inputs'], cand.get('alt_inputs')]
            rep = getattr(hm, 'repair', None)
            if rep is not None:
                # exact ties rarely survive rounding: let the harness move threshold-like inputs onto the float values the real code computes
                try:
                    tries += list(rep(real(), case, cand['inputs']))[:40]
                except Exception:
                    pass
            for inp in tries:
                if inp is None:
                    continue
                conc = run_concrete(hm, case, inp, timeout_s=case.get('replay_timeout_s', 30))
                cand['concrete'] = dict(status=conc['status'], failed=conc['failed'][:5], detail=conc.get('detail'))
                if confirms(cand, conc):
                    cand['confirmed'] = True
                    cand['inputs'] = inp
                    st['confirmed'] += 1
                    break
        res['stats'] = c.stats
        res['assumptions'] = sorted(c.assumption_notes)
    except core.PathAbort as e:
        res['error'] = 'internal: %r' % (e,)
    except Exception as e:
        res['error'] = '%s: %s\n%s' % (type(e).__name__, e, traceback.format_exc()[-1500:])
    res['wall_s'] = time.time() - t0
    return res


def _raised_in_model(where, exc=None):
    """innermost frame of an exception lies in the symbolic model (or in the rational arithmetic it calls), not in the analysed source;
    or a TypeError that names the model's own classes (an operation the term classes do not support)"""
    if exc and exc.startswith('TypeError') and any(k in exc for k in ("'S'", "'B'", "symnp", "Fraction")):
        return True
    if not where:
        return False
    return where[-1].split(':')[0] in ('nd.py', 'ndx.py', 'core.py', 'hapi.py', 'loader.py', 'fractions.py', 'fp.py')


def _worker(inq, outq):
    while True:
        item = inq.get()
        if item is None:
            break
        idx, job = item
        outq.put(('start', idx, os.getpid(), time.time()))
        try:
            res = run_case(job)
        except BaseException as e:      # never let a worker die silently
            res = dict(case=job[1], paths=0, stats={}, outcomes={}, candidates=[], unknown=[], notenc=[], samples=[], validated=0,
                       validation_mismatch=0, validation_skipped=0, truncated=True, wall_s=0.0, assumptions=[], error='worker: %r' % (e,))
        outq.put(('done', idx, res))


def run_pool(jobs, nproc, hard_limit, verbose=False):
    """own process pool: a case that stays inside a solver call beyond the hard limit (z3 does not always honour its time-out) is killed and
    reported as truncated instead of blocking the whole check"""
    ctxm = mp.get_context('fork')
    inq, outq = ctxm.Queue(), ctxm.Queue()
    for i, j in enumerate(jobs):
        inq.put((i, j))
    procs = {}

    def spawn():
        p = ctxm.Process(target=_worker, args=(inq, outq), daemon=True)
        p.start()
        procs[p.pid] = p
    for _ in range(nproc):
        spawn()
    running = {}        # pid -> (idx, start)
    results = {}
    while len(results) < len(jobs):
        try:
            msg = outq.get(timeout=2.0)
        except Exception:
            msg = None
        if msg is not None:
            if msg[0] == 'start':
                running[msg[2]] = (msg[1], msg[3])
            else:
                _, idx, res = msg
                results[idx] = res
                for pid, (i2, _) in list(running.items()):
                    if i2 == idx:
                        running.pop(pid, None)
                if verbose:
                    r = res
                    print('  case %s: paths=%d %s cand=%d unk=%d %.1fs %s' % (json.dumps(r['case'], default=str)[:100], r['paths'], r['outcomes'],
                                                                              len(r['candidates']), len(r['unknown']), r['wall_s'], r.get('error', '')), flush=True)
        now = time.time()
        for pid, (idx, t0) in list(running.items()):
            if now - t0 > hard_limit and idx not in results:
                try:
                    os.kill(pid, signal.SIGKILL)
                except OSError:
                    pass
                running.pop(pid, None)
                procs.pop(pid, None)
                case = jobs[idx][1]
                results[idx] = dict(case=case, paths=0, stats={}, outcomes={'killed': 1}, candidates=[], unknown=[dict(label='case killed: a solver call exceeded the hard limit', trace=[])],
                                    notenc=[], samples=[], validated=0, validation_mismatch=0, validation_skipped=0, truncated=True, wall_s=now - t0,
                                    assumptions=[], solver_timeouts=1)
                spawn()
        for pid, (idx, t0) in list(running.items()):
            p = procs.get(pid)
            if p is not None and not p.is_alive() and idx not in results:
                running.pop(pid, None)
                procs.pop(pid, None)
                results[idx] = dict(case=jobs[idx][1], paths=0, stats={}, outcomes={'killed': 1}, candidates=[], unknown=[dict(label='worker process died', trace=[])],
                                    notenc=[], samples=[], validated=0, validation_mismatch=0, validation_skipped=0, truncated=True, wall_s=now - t0,
                                    assumptions=[], solver_timeouts=1)
                spawn()
        # a worker that died for another reason: replace it so that the queue keeps draining
        for pid, p in list(procs.items()):
            if not p.is_alive() and pid not in running:
                procs.pop(pid, None)
                if len(results) + len(running) < len(jobs):
                    spawn()
    for _ in procs:
        inq.put(None)
    for p in procs.values():
        p.join(timeout=1)
        if p.is_alive():
            p.terminate()
    return [results[i] for i in range(len(jobs))]


def load_known(prop):
    if not os.path.exists(KNOWN):
        return []
    d = json.load(open(KNOWN))
    return [f for f in d.get('findings', []) if f.get('property') == prop and f.get('status', 'open') == 'open']


def match_known(finding, case, cand):
    m = finding.get('match', {})
    for k, v in m.get('case', {}).items():
        if case.get(k) != v:
            return False
    if 'kind' in m and m['kind'] != cand['kind']:
        return False
    if 'label' in m and m['label'] != cand['label']:
        return False
    if 'exc_type' in m and m['exc_type'] != cand.get('exc_type'):
        return False
    return True


def write_replay(prop, modname, case, cand):
    os.makedirs(REPL, exist_ok=True)
    body = dict(property=prop, harness=modname, case=case, inputs=cand['inputs'], kind=cand['kind'], label=cand['label'],
                exc_type=cand.get('exc_type'), detail=cand.get('exc') or cand.get('concrete'))
    h = hashlib.sha256(json.dumps(body, sort_keys=True, default=str).encode()).hexdigest()[:12]
    path = os.path.join(REPL, '%s-%s.json' % (prop, h))
    json.dump(body, open(path, 'w'), indent=1, default=str)
    return path


def do_replay(path):
    body = json.load(open(path))
    hm = importlib.import_module('harness.' + body['harness'])
    conc = run_concrete(hm, body['case'], body['inputs'] or {}, timeout_s=body['case'].get('replay_timeout_s', 30))
    ok = confirms(body, conc)
    print('replay %s: case=%s' % (path, json.dumps(body['case'], default=str)))
    print('  inputs=%s' % json.dumps({k: float(Fr(v)) for k, v in (body['inputs'] or {}).items()}))
    print('  real package: status=%s failed=%s %s' % (conc['status'], conc['failed'][:6], conc.get('detail') or ''))
    if ok:
        print('REPRODUCED property=%s kind=%s label=%s' % (body['property'], body['kind'], body['label']))
        return 1
    print('NOT-REPRODUCED property=%s' % body['property'])
    return 0


def main(argv=None):
    ap = argparse.ArgumentParser()
    ap.add_argument('prop')
    ap.add_argument('--tier', default=os.environ.get('VERIF_TIER', 'quick'))
    ap.add_argument('--replay')
    ap.add_argument('--jobs', type=int, default=int(os.environ.get('VERIF_JOBS', '16')))
    ap.add_argument('--only', help='substring filter on the case json (debug)')
    ap.add_argument('--verbose', action='store_true')
    a = ap.parse_args(argv)
    prop = a.prop
    if a.replay:
        return do_replay(a.replay)
    seed = int(os.environ.get('VERIF_SEED', '0'))
    t0 = time.time()
    try:
        hm = importlib.import_module('harness.' + prop)
        L = loaded()
        from symnp import selftest
        st = selftest.run(L, quick=(a.tier == 'quick'))
        if st['failures']:
            print('HARNESS-ERROR shim self-test: %s' % st['failures'][:3])
            return 2
        if st.get('not_encodable'):
            print('NOT-ENCODABLE shim self-test (the paths that reach these constructs are inconclusive): %s' % st['not_encodable'][:3])
        cfg = dict(DEFAULT_CFG[a.tier])
        cfg.update(getattr(hm, 'CONFIG', {}).get(a.tier, {}))
        scale = float(os.environ.get('VERIF_BUDGET_SCALE', '1'))
        if scale != 1:
            # smoke runs of the deep tier (recorded in the evidence as the budget actually used)
            cfg['budget_s'] = cfg['budget_s'] * scale
            cfg['case_wall_s'] = cfg['case_wall_s'] * scale
        cases = hm.cases(a.tier, seed)
        if a.only:
            cases = [c for c in cases if a.only in json.dumps(c, default=str)]
        total_cases = len(cases)
        mx = cfg.get('max_cases')
        if mx and len(cases) > mx:
            # more structural instances than the tier's budget: keep an evenly spaced, seed-shifted subsample (stated in the evidence)
            step = len(cases) / float(mx)
            off = (seed % 7) / 7.0
            keep = sorted(set(min(len(cases) - 1, int((i + off) * step)) for i in range(mx)))
            cases = [cases[i] for i in keep]
    except Exception:
        print('HARNESS-ERROR %s' % traceback.format_exc()[-2000:])
        return 2
    if a.tier == 'thorough':
        # the deep tier may not fit its budget: run the small structural instances first so that what gets cut is the largest size
        cases.sort(key=lambda c: (c.get('n') or 0, c.get('k') or 0))
    deadline = time.time() + cfg['budget_s']
    jobs = [(prop, c, cfg, deadline) for c in cases]
    results = []
    if a.jobs <= 1 or len(jobs) <= 1:
        for j in jobs:
            results.append(run_case(j))
    else:
        results = run_pool(jobs, min(a.jobs, len(jobs)), hard_limit=2 * cfg['case_wall_s'] + 120, verbose=a.verbose)
    # ------------------------------------------------------------------ aggregate
    agg = dict(paths=0, decisions=0, obligations=0, discharged=0, unknown=0, queries=0, solver_s=0.0, lin_unsat=0,
               nra_queries=0, infeasible=0, trivially=0, decide_unknown=0)
    errors = [r['error'] for r in results if r.get('error')]
    skipped = sum(1 for r in results if r.get('skipped'))
    truncated = sum(1 for r in results if r.get('truncated'))
    outcomes = {}
    notenc = []
    mismatch_samples = []
    unknown = []
    samples = []
    validated = mism = vskip = 0
    assumptions = set(getattr(hm, 'ASSUMPTIONS', []))
    for r in results:
        for k in agg:
            agg[k] += r['stats'].get(k, 0)
        for k, v in r['outcomes'].items():
            outcomes[k] = outcomes.get(k, 0) + v
        notenc += r['notenc']
        unknown += [dict(case=r['case'], **u) for u in r['unknown']]
        agg['unknown'] += r.get('solver_timeouts', 0)
        validated += r['validated']
        mism += r['validation_mismatch']
        for ms in r.get('mismatch_samples', []):
            if len(mismatch_samples) < 4:
                mismatch_samples.append(dict(case=r['case'], inputs=ms['inputs'], symbolic=str(ms['symbolic'])[:300],
                                             concrete=str({k: ms['concrete'].get(k) for k in ('status', 'failed', 'signature', 'exc')})[:400]))
        vskip += r['validation_skipped']
        assumptions.update(r['assumptions'])
        if len(samples) < 6 and r['samples']:
            samples.append(r['samples'][0])
    if errors:
        print('HARNESS-ERROR %s' % errors[0])
        return 2
    known = load_known(prop)
    violations = []
    known_hits = {}
    unconfirmed = 0
    probes_ok = 0
    duplicates = 0
    unconfirmed_samples = []
    shim_exc = []
    for r in results:
        for cand in r['candidates']:
            if cand.get('duplicate'):
                duplicates += 1
                continue
            if not cand.get('confirmed') and (r['case'].get('probe') or cand.get('from_unknown')):
                probes_ok += 1          # a solver-produced float64 probe input that the real package handles correctly
                continue
            if not cand.get('confirmed') and cand['kind'] == 'exc' and _raised_in_model(cand.get('where'), cand.get('exc')):
                # an exception raised by the model itself (not by the analysed code) that the real package does not raise: the path was not encoded
                shim_exc.append('%s at %s' % (cand.get('exc'), (cand.get('where') or ['?'])[-1]))
                continue
            if not cand.get('confirmed'):
                unconfirmed += 1
                if len(unconfirmed_samples) < 5:
                    unconfirmed_samples.append(dict(case=r['case'], kind=cand['kind'], label=cand['label'], inputs=cand['inputs'],
                                                    exc=cand.get('exc'), concrete=cand.get('concrete')))
                continue
            kf = [f for f in known if match_known(f, r['case'], cand)]
            if kf:
                known_hits.setdefault(kf[0]['id'], [kf[0], 0])[1] += 1
                continue
            violations.append((r['case'], cand))
    notenc += shim_exc
    # abstract (stubbed-kernel) counterexamples that no slice realised: look for a real input with the harness' concretiser.
    # This only ever runs when the solver has already produced an abstract counterexample; whatever it finds is replayed like any other witness.
    if unconfirmed and not violations and hasattr(hm, 'realise'):
        t_r = time.time()
        rnd = random.Random(seed + 12345)
        seen_abs = set()
        picked = []
        for r in results:
            if r['case'].get('layer') == 'L1' and any(not c.get('confirmed') and not c.get('duplicate') for c in r['candidates']):
                key = (r['case'].get('fn'), r['case'].get('n'), r['case'].get('order'), r['case'].get('metric'), r['case'].get('contract'))
                if key not in seen_abs:
                    seen_abs.add(key)
                    picked.append(r['case'])
        realised = 0
        tried = 0
        for case in sorted(picked, key=lambda c: -(c.get('n') or 0))[:10]:
            hit = False
            for case2, inputs in hm.realise(case, rnd):
                if time.time() - t_r > cfg.get('realise_budget_s', 90) or hit:
                    break
                tries = [inputs]
                rep = getattr(hm, 'repair', None)
                if rep is not None:
                    try:
                        tries += list(rep(real(), case2, inputs))[:8]
                    except Exception:
                        pass
                for inp in tries:
                    tried += 1
                    conc = run_concrete(hm, case2, inp, timeout_s=10)
                    if conc['status'] == 'ok' and conc['failed']:
                        violations.append((case2, dict(kind='obligation', label=conc['failed'][0], inputs=inp, confirmed=True)))
                        hit = True
                        realised += 1
                        break
                    if conc['status'] == 'timeout':
                        violations.append((case2, dict(kind='timeout', label='timeout', inputs=inp, confirmed=True)))
                        hit = True
                        realised += 1
                        break
        realise_info = dict(abstract_cases=len(picked), concrete_runs=tried, realised=realised, seconds=round(time.time() - t_r, 1))
    else:
        realise_info = None
    # re-confirm through the official replay path, one per distinct (label, kind)
    reported = []
    seenk = set()
    for case, cand in violations:
        key = (cand['kind'], cand['label'], cand.get('exc_type'), json.dumps({k: case[k] for k in case if k in getattr(hm, 'REPORT_KEYS', ['fn'])}, default=str))
        if key in seenk or len(reported) >= 8:
            continue
        path = write_replay(prop, prop, case, cand)
        try:
            p = subprocess.run([sys.executable, '-m', 'symnp.main', prop, '--replay', path], cwd=ROOT, capture_output=True,
                               text=True, timeout=case.get('replay_timeout_s', 30) + 120)
            ok = p.returncode == 1 and 'REPRODUCED' in p.stdout
        except subprocess.TimeoutExpired:
            ok = cand['kind'] in ('steplimit', 'timeout')
        if ok:
            seenk.add(key)
            reported.append((path, case, cand))
        else:
            unconfirmed += 1
    wall = time.time() - t0
    # ------------------------------------------------------------------ evidence
    os.makedirs(EVID, exist_ok=True)
    cov = dict(
        states=agg['paths'], transitions=max(agg['decisions'], 0), traces_validated_against_impl=validated,
        samples=samples or [dict(note='no path explored')], obligations=agg['obligations'], discharged=agg['discharged'],
        unknown=agg['unknown'], unconfirmed_counterexamples=unconfirmed, duplicate_counterexamples_not_replayed=duplicates, abstract_counterexample_realisation=realise_info, float64_probe_inputs_replayed_ok=probes_ok, unconfirmed_samples=unconfirmed_samples,
        not_encodable_paths=len(notenc), not_encodable_samples=sorted(set(notenc))[:5],
        path_outcomes=outcomes, structural_cases_enumerated=total_cases, infeasible_paths_pruned=agg['infeasible'], branch_feasibility_unknown_explored_both=agg['decide_unknown'], structural_cases=len(cases), cases_skipped_budget=skipped,
        cases_truncated=truncated, truncated_cases=[r['case'] for r in results if r.get('truncated')][:12], validation_mismatch=mism, validation_mismatch_samples=mismatch_samples, validation_skipped=vskip,
        solver=dict(engine='z3 %s (python API)' % core.z3.get_version_string(), queries=agg['queries'], linear_abstraction_unsat=agg['lin_unsat'],
                    nra_queries=agg['nra_queries'], solver_s=round(agg['solver_s'], 2), per_query_timeout_ms=cfg['qtimeout_ms']),
        functions_encoded=getattr(hm, 'FUNCTIONS', []), bounds=getattr(hm, 'BOUNDS', {}).get(a.tier, getattr(hm, 'BOUNDS', {})),
        stubs=getattr(hm, 'STUBS', []), source_files={k: v for k, v in sorted(L.files.items())},
        shim_selftest=dict(checks=st['checks'], failures=0, not_encodable=st.get('not_encodable', [])),
        unknown_samples=unknown[:5], known_findings=[dict(id=k, hits=v[1]) for k, v in known_hits.items()],
        exhaustive=(skipped == 0 and truncated == 0 and agg['unknown'] == 0 and not notenc),
        violations=[dict(replay=p, case=c, kind=cd['kind'], label=cd['label']) for p, c, cd in reported],
    )
    if cov['states'] < 1:
        cov['states'] = 0
    ev = dict(property_id=prop, tier=a.tier, seed=seed, level='model_checking', coverage=cov,
              assumptions=sorted(assumptions), wall_s=round(wall, 2), violations=len(reported))
    if cov['states'] < 1 or cov['transitions'] < 1:
        # schema wants >= 1 for model_checking; fall back to the generic keys as well
        cov['evaluations'] = max(1, agg['obligations'])
        cov['distinct_nontrivial'] = max(2, agg['obligations'] - agg['trivially'])
        cov['rule'] = 'obligations discharged by the solver; non-trivial = not syntactically true'
        cov['states'] = max(1, cov['states'])
        cov['transitions'] = max(1, cov['transitions'])
    json.dump(ev, open(os.path.join(EVID, prop + '.json'), 'w'), indent=1, default=str)
    # ------------------------------------------------------------------ report
    print('%s tier=%s cases=%d paths=%d decisions=%d obligations=%d discharged=%d unknown=%d validated=%d (mismatch %d) solver=%.1fs wall=%.1fs'
          % (prop, a.tier, len(cases), agg['paths'], agg['decisions'], agg['obligations'], agg['discharged'], agg['unknown'], validated, mism, agg['solver_s'], wall))
    for k, (f, n) in known_hits.items():
        print('KNOWN-FINDING: property=%s %s (%d paths)' % (prop, f['what'], n))
    if agg['unknown'] or skipped or truncated:
        print('INCONCLUSIVE property=%s unknown_obligations=%d cases_skipped=%d cases_truncated=%d' % (prop, agg['unknown'], skipped, truncated))
    if notenc:
        print('NOT-ENCODABLE property=%s paths=%d e.g. %s' % (prop, len(notenc), sorted(set(notenc))[:2]))
    if unconfirmed:
        print('UNCONFIRMED property=%s n=%d (solver counterexamples that did not reproduce on the real package)' % (prop, unconfirmed))
    if reported:
        for p, case, cand in reported:
            print('VIOLATION property=%s replay=%s' % (prop, p))
            print('  case=%s kind=%s label=%s %s' % (json.dumps(case, default=str), cand['kind'], cand['label'], cand.get('exc') or ''))
        return 1
    if notenc and len(notenc) >= agg['paths']:
        print('INCONCLUSIVE property=%s every explored path reached a construct the encoding does not model: nothing was decided' % prop)
        return 0
    print('PASS property=%s' % prop)
    return 0


if __name__ == '__main__':
    try:
        rc = main()
    except SystemExit:
        raise
    except BaseException:
        print('HARNESS-ERROR %s' % traceback.format_exc()[-2000:])
        rc = 2
    sys.exit(rc)

"""symnp.ndx -- second tier of the NumPy model: functions that a maintenance refactoring of the analysed code may start to use
(np.take, np.flatnonzero, np.logical_and, np.einsum for the dot patterns, ndarray.dot, ...).  Everything here is defined in terms of
the primitives of symnp.nd (exact over the reals, forking on symbolic comparisons), so it inherits their soundness argument.
What is still missing raises NotEncodable and is reported as such (inconclusive), never as a pass or a violation."""
import builtins
import numpy as _np
from fractions import Fraction as Fr
from . import core, nd
from .core import S, B, NotEncodable

ndarray = nd.ndarray


def _arr(x):
    return x if isinstance(x, ndarray) else ndarray(nd._raw(x), _raw=True)


def _ints(x):
    if isinstance(x, (int, _np.integer)):
        return int(x)
    return [nd._as_int(v) for v in nd._flat(x)]


def flatnonzero(a):
    return nd.nonzero(ndarray(nd._raw(a).reshape(-1), _raw=True))[0]


def take(a, indices, axis=None):
    A = _arr(a)
    if axis is None:
        A = ndarray(A.d.reshape(-1), _raw=True)
    elif axis not in (0,):
        raise NotEncodable('take along axis %r' % (axis,))
    return A[indices]


def ravel(a):
    return ndarray(nd._raw(a).reshape(-1), _raw=True)


def reshape(a, shape):
    return ndarray(nd._raw(a).reshape(shape), _raw=True)


def transpose(a):
    return ndarray(nd._raw(a).T, _raw=True)


def squeeze(a, axis=None):
    return nd._wrap(_np.squeeze(nd._raw(a), axis=axis))


def atleast_1d(a):
    d = nd._raw(a)
    return ndarray(d.reshape(1) if d.ndim == 0 else d, _raw=True)


def atleast_2d(a):
    d = nd._raw(a)
    return ndarray(d.reshape(1, -1) if d.ndim < 2 else d, _raw=True)


def expand_dims(a, axis):
    return ndarray(_np.expand_dims(nd._raw(a), axis), _raw=True)


def insert(arr, obj, values, axis=None):
    d = nd._raw(arr)
    if d.ndim != 1 and axis != 0:
        raise NotEncodable('insert into a %d-d array' % d.ndim)
    lst = [nd._scalar(v) for v in d] if d.ndim == 1 else None
    if lst is None:
        raise NotEncodable('insert of rows')
    if isinstance(obj, (int, _np.integer)):
        vals = nd._flat(values) if isinstance(values, (ndarray, list, tuple, _np.ndarray)) else [values]
        k = int(obj)
        if k < 0:
            k += len(lst)
        return nd.array(lst[:k] + list(vals) + lst[k:])
    raise NotEncodable('insert at several positions')


def roll(a, shift, axis=None):
    d = nd._raw(a)
    return ndarray(_np.roll(d, int(shift), axis=axis), _raw=True)


def tile(a, reps):
    return ndarray(_np.tile(nd._obj(nd._raw(a)) if nd._raw(a).dtype == object else nd._raw(a), reps), _raw=True)


def repeat(a, repeats, axis=None):
    return ndarray(_np.repeat(nd._raw(a), repeats, axis=axis), _raw=True)


def fromiter(it, dtype=None, count=-1):
    return nd.array(list(it), dtype=dtype) if dtype is not None else nd.array(list(it))


def var(a, axis=None, ddof=0):
    def f(l):
        m = nd._psum(l) / Fr(len(l)) if not any(isinstance(v, S) for v in l) else core.div(nd._psum(l), Fr(len(l)))
        return core.div(nd._psum([(v - m) * (v - m) for v in l]), Fr(len(l) - ddof))
    return nd._along(a, axis, f)


def around(a, decimals=0):
    return nd._ew1(lambda v: nd.b_round(v, decimals), a)


def _logic2(f):
    def g(a, b):
        return nd._ew2(lambda x, y: f(nd._truth(x), nd._truth(y)), a, b)
    return g


def _and(x, y):
    if isinstance(x, B) or isinstance(y, B):
        return core.band(x, y)
    return bool(x) and bool(y)


def _or(x, y):
    if isinstance(x, B) or isinstance(y, B):
        return core.bor(x, y)
    return bool(x) or bool(y)


def _xor(x, y):
    if isinstance(x, B) or isinstance(y, B):
        return core.bor(core.band(x, core.bnot(y)), core.band(core.bnot(x), y))
    return bool(x) != bool(y)


logical_and = _logic2(_and)
logical_or = _logic2(_or)
logical_xor = _logic2(_xor)


def logical_not(a):
    def f(v):
        v = nd._truth(v)
        return core.bnot(v) if isinstance(v, B) else (not v)
    return nd._ew1(f, a)


def _cmp2(name):
    def g(a, b):
        A = _arr(a) if isinstance(a, (ndarray, list, tuple, _np.ndarray)) else a
        Bb = _arr(b) if isinstance(b, (ndarray, list, tuple, _np.ndarray)) else b
        if not isinstance(A, ndarray) and isinstance(Bb, ndarray):
            A = ndarray(_np.full(Bb.d.shape, nd._conv_elem(A), dtype=object), _raw=True)
        return getattr(A, name)(Bb) if isinstance(A, ndarray) else getattr(nd._conv_elem(A), name)(nd._conv_elem(Bb))
    return g


less, less_equal, greater, greater_equal, equal, not_equal = (_cmp2(n) for n in ('__lt__', '__le__', '__gt__', '__ge__', '__eq__', '__ne__'))


def add(a, b): return _arr(a) + b if isinstance(a, (ndarray, list, tuple)) else a + b
def subtract(a, b): return _arr(a) - b if isinstance(a, (ndarray, list, tuple)) else a - b
def multiply(a, b): return _arr(a) * b if isinstance(a, (ndarray, list, tuple)) else a * b
def negative(a): return -_arr(a) if isinstance(a, (ndarray, list, tuple)) else -a
def reciprocal(a): return nd.divide(Fr(1), a)


def isin(element, test_elements, **kw):
    tests = nd._flat(test_elements)

    def f(v):
        r = False
        for t in tests:
            e = (v == t)
            if isinstance(e, B):
                r = core.bor(r, e) if not (r is False) else e
            elif e:
                return True
        return r
    return nd._ew1(f, element)


def _int_set(name):
    def g(a, b):
        A, Bb = nd._raw(a), nd._raw(b)
        if A.dtype == object or Bb.dtype == object:
            raise NotEncodable('np.%s of real-valued arrays' % name)
        return ndarray(getattr(_np, name)(A, Bb).astype(_np.int64), _raw=True)
    return g


setdiff1d, union1d, intersect1d = _int_set('setdiff1d'), _int_set('union1d'), _int_set('intersect1d')


def outer(a, b):
    A, Bb = nd._flat(a), nd._flat(b)
    return nd.array([[x * y for y in Bb] for x in A])


def inner(a, b):
    return nd.dot(a, b)


def matmul(a, b):
    A, Bb = nd._raw(a), nd._raw(b)
    if A.ndim == 2 and Bb.ndim == 2:
        if A.shape[1] != Bb.shape[0]:
            raise ValueError('matmul: dimension mismatch')
        return nd.array([[nd._psum([nd._scalar(A[i, k]) * nd._scalar(Bb[k, j]) for k in range(A.shape[1])]) for j in range(Bb.shape[1])] for i in range(A.shape[0])])
    if A.ndim == 1 and Bb.ndim == 2:
        return nd.array([nd._psum([nd._scalar(A[k]) * nd._scalar(Bb[k, j]) for k in range(len(A))]) for j in range(Bb.shape[1])])
    return nd.dot(a, b)


def einsum(spec, *ops):
    spec = spec.replace(' ', '')
    if spec in ('i,i->', 'i,i', 'j,j->', 'j,j') and len(ops) == 2:
        return nd.dot(ops[0], ops[1])
    if spec in ('ij,ij->i',) and len(ops) == 2:
        A, Bb = nd._raw(ops[0]), nd._raw(ops[1])
        if A.shape != Bb.shape:
            raise ValueError('operands could not be broadcast together')
        return nd.array([nd._psum([nd._scalar(x) * nd._scalar(y) for x, y in zip(ra, rb)]) for ra, rb in zip(A, Bb)])
    if spec in ('ij,j->i', 'ij,j') and len(ops) == 2:
        return nd.dot(ops[0], ops[1])
    if spec in ('i->', 'ij->') and len(ops) == 1:
        return nd.sum_(ops[0])
    raise NotEncodable('einsum pattern %r' % spec)


def trapz(y, x=None, dx=1):
    Y = nd._flat(y)
    if x is None:
        return nd._psum([(Y[i] + Y[i + 1]) * Fr(dx) / 2 for i in range(len(Y) - 1)])
    X = nd._flat(x)
    if len(X) != len(Y):
        raise ValueError('operands could not be broadcast together')
    return nd._psum([(X[i + 1] - X[i]) * (Y[i] + Y[i + 1]) / 2 for i in range(len(Y) - 1)])


def cumprod(a):
    r, acc = [], 1
    for v in nd._flat(a):
        acc = acc * v
        r.append(acc)
    return nd.array(r)


def log10(a):
    raise NotEncodable('log10')


def lexsort(keys):
    raise NotEncodable('lexsort')


def argpartition(*a, **k):
    raise NotEncodable('argpartition')


def array_split(a, n):
    raise NotEncodable('array_split')


def trunc(a):
    return nd._ew1(lambda v: nd.b_int(v) if not isinstance(v, S) else core.sint(v), a)


def putmask(a, mask, values):
    if not isinstance(a, ndarray):
        raise TypeError('argument 1 must be numpy.ndarray, not %s' % type(a).__name__)
    nd._log_write(a.d, 'np.putmask')
    r = nd.where(mask, values, a)
    if a.d.dtype != object and r.d.dtype == object:
        if a.d.dtype == _np.int64 and any(isinstance(v, (S, Fr)) and not (isinstance(v, Fr) and v.denominator == 1) for v in r.d.reshape(-1)):
            raise NotEncodable('putmask of real values into an integer array')
        a.d = a.d.astype(object)
    a.d[...] = r.d


def copyto(dst, src, where=True):
    if where is not True:
        return putmask(dst, where, src)
    nd._log_write(dst.d, 'np.copyto')
    dst[...] = src


class _Add:
    def __call__(self, a, b):
        return add(a, b)

    def reduce(self, a, axis=0):
        return nd.sum_(a, axis)

    def accumulate(self, a, axis=0):
        return nd.cumsum(a)


def ediff1d(a):
    return nd.diff(ravel(a))


def select(condlist, choicelist, default=0):
    r = default
    for c, v in reversed(list(zip(condlist, choicelist))):
        r = nd.where(c, v, r)
    return r


def put(a, ind, v):
    idx = _ints(ind)
    vals = nd._flat(v) if isinstance(v, (ndarray, list, tuple, _np.ndarray)) else [v]
    flat = a.reshape(-1) if a.d.ndim > 1 else a
    for k, i in enumerate([idx] if isinstance(idx, int) else idx):
        flat[i] = vals[k % len(vals)]


class _RClass:
    def __getitem__(self, key):
        parts = key if isinstance(key, tuple) else (key,)
        if any(isinstance(p, (slice, str)) for p in parts):
            raise NotEncodable('np.r_ with a slice or a directive')
        return nd.concatenate([atleast_1d(p) for p in parts])


class _CClass:
    def __getitem__(self, key):
        parts = key if isinstance(key, tuple) else (key,)
        if any(isinstance(p, (slice, str)) for p in parts):
            raise NotEncodable('np.c_ with a slice or a directive')
        return nd.column_stack(list(parts))


def ix_(*a):
    raise NotEncodable('np.ix_')


def issubdtype(dt, kind):
    """dtype object of a facade buffer: object = real-valued (float64 in the analysed program), int64, bool"""
    def real(t):
        if t is nd.b_float or t is float:
            return _np.float64
        if t is nd.b_int or t is int:
            return _np.int64
        try:
            return _np.float64 if _np.dtype(t) == object else t
        except TypeError:
            return t
    return bool(_np.issubdtype(real(dt), real(kind)))


def install(m):
    for k, v in dict(flatnonzero=flatnonzero, take=take, ravel=ravel, reshape=reshape, transpose=transpose, squeeze=squeeze, atleast_1d=atleast_1d,
                     atleast_2d=atleast_2d, expand_dims=expand_dims, insert=insert, roll=roll, tile=tile, repeat=repeat, fromiter=fromiter, var=var,
                     around=around, round=around, round_=around, logical_and=logical_and, logical_or=logical_or, logical_xor=logical_xor,
                     logical_not=logical_not, less=less, less_equal=less_equal, greater=greater, greater_equal=greater_equal, equal=equal,
                     not_equal=not_equal, subtract=subtract, multiply=multiply, negative=negative, reciprocal=reciprocal, true_divide=nd.divide,
                     isin=isin, in1d=isin, setdiff1d=setdiff1d, union1d=union1d, intersect1d=intersect1d, outer=outer, inner=inner, matmul=matmul,
                     vdot=nd.dot, einsum=einsum, trapz=trapz, trapezoid=trapz, cumprod=cumprod, trunc=trunc, nanmax=nd.amax, nanmin=nd.amin,
                     nansum=nd.sum_, nanmean=nd.mean, nanargmax=nd.argmax, nanargmin=nd.argmin, asanyarray=nd.asarray, ascontiguousarray=nd.asarray,
                     asfarray=nd.asarray, putmask=putmask, copyto=copyto, ediff1d=ediff1d, select=select, put=put, ix_=ix_, add=_Add(), r_=_RClass(), c_=_CClass(), fmin=nd._Minimum(), fmax=nd._Maximum()).items():
        if not hasattr(m, k) or k in ('round',):
            setattr(m, k, v)
    m.float64 = m.float_ = m.double = m.float32 = nd.b_float
    m.int64 = m.int_ = m.intp = m.int32 = nd.b_int
    m.bool_ = bool
    m.issubdtype = issubdtype
    for nm in ('inexact', 'integer', 'floating', 'number', 'signedinteger', 'unsignedinteger', 'generic'):
        setattr(m, nm, getattr(_np, nm))
    m.newaxis = None
    m.pi = nd.to_fr(_np.pi)
    m.inf = None


# ---- ndarray methods that mirror module-level functions
def _methods():
    A = ndarray
    A.dot = lambda self, o: nd.dot(self, o)
    A.__matmul__ = lambda self, o: matmul(self, o)
    A.std = lambda self: nd.std(self)
    A.var = lambda self, axis=None, ddof=0: var(self, axis, ddof)
    A.prod = lambda self, axis=None: nd.prod(self, axis)
    A.nonzero = lambda self: nd.nonzero(self)
    A.clip = lambda self, lo=None, hi=None: nd.clip(self, lo, hi)
    A.squeeze = lambda self, axis=None: squeeze(self, axis)
    A.transpose = lambda self: transpose(self)
    A.round = lambda self, decimals=0: around(self, decimals)
    A.put = lambda self, ind, v: put(self, ind, v)
    A.take = lambda self, idx, axis=None: take(self, idx, axis)
    A.ptp = lambda self: nd.ptp(self)
    A.repeat = lambda self, r, axis=None: repeat(self, r, axis)
    A.searchsorted = lambda self, v, side='left', sorter=None: nd.searchsorted(self, v, side, sorter)

    def item(self, *a):
        d = self.d
        if a:
            return nd._scalar(d[a if len(a) > 1 else a[0]])
        if d.size != 1:
            raise ValueError('can only convert an array of size 1 to a Python scalar')
        return nd._scalar(d.reshape(-1)[0])
    A.item = item

    def fill(self, v):
        self[...] = v
    A.fill = fill

    def _inplace(op, what):
        def f(self, o):
            nd._log_write(self.d, what)
            r = op(self, o)
            if self.d.dtype != object and r.d.dtype == object:
                if self.d.dtype == _np.int64:
                    raise TypeError('cannot cast the result of an in-place operation on an integer array to int')
                self.d = self.d.astype(object)
            self.d[...] = r.d
            return self
        return f
    A.__imul__ = _inplace(lambda a, b: a * b, 'in-place *=')
    A.__itruediv__ = _inplace(lambda a, b: a / b, 'in-place /=')

    def __floordiv__(self, o):
        if self.d.dtype == object or isinstance(o, (S, Fr, float)) or (isinstance(o, ndarray) and o.d.dtype == object):
            return nd._ew2(lambda x, y: core.sfloor(core.div(x, y)), self, o)
        return ndarray(self.d // (o.d if isinstance(o, ndarray) else o), _raw=True)
    A.__floordiv__ = __floordiv__

    def __mod__(self, o):
        if self.d.dtype == object or isinstance(o, (S, Fr, float)) or (isinstance(o, ndarray) and o.d.dtype == object):
            raise NotEncodable('modulo of real-valued arrays')
        return ndarray(self.d % (o.d if isinstance(o, ndarray) else o), _raw=True)
    A.__mod__ = __mod__
    A.__xor__ = lambda self, o: logical_xor(self, o)


_methods()

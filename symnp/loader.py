"""symnp.loader -- re-load the repository's *current* source so that it runs on the symbolic shim.

Every call of load() reads /repo/src/kneeliverse/*.py (and the pinned uts/*.py it imports) from
disk, applies value-preserving AST rewrites and exec's the result.  Nothing derived from the source
is cached under /verif.

Rewrites (all semantics-preserving over the reals):
  * float literal           -> exact rational of its decimal text          (__fr('0.5'))
  * a / b , a /= b          -> exact / symbolic division                    (__div(a, b))
  * a ** b                  -> exact / symbolic power                       (__pow(a, b))
  * annotations             -> dropped (they name `int`, `float`, ... which are rebound below)
  * builtins len,int,float,abs,max,min,round,sum -> versions accepting symbolic scalars
  * import numpy/math/numba/uts.*/kneeliverse.* -> shim modules / modules loaded the same way
"""
import ast, builtins, os, sys, types, hashlib, importlib
from fractions import Fraction as Fr
from . import core, nd

REPO_SRC = os.environ.get('KNEE_SRC', '/repo/src/kneeliverse')
if 'KNEE_SRC' in os.environ:
    # debugging aid (seeded changes are evaluated in scratch worktrees): the real package is imported from the same tree as the encoding
    sys.path.insert(0, os.path.dirname(os.path.abspath(REPO_SRC)))


def _uts_dir():
    import uts
    return os.path.dirname(uts.__file__)


class _Rewrite(ast.NodeTransformer):
    def visit_Constant(self, n):
        if isinstance(n.value, float):
            return ast.copy_location(ast.Call(ast.Name('__fr', ast.Load()), [ast.Constant(repr(n.value))], []), n)
        return n

    def visit_BinOp(self, n):
        self.generic_visit(n)
        if isinstance(n.op, ast.Div):
            return ast.copy_location(ast.Call(ast.Name('__div', ast.Load()), [n.left, n.right], []), n)
        if isinstance(n.op, ast.Pow):
            return ast.copy_location(ast.Call(ast.Name('__pow', ast.Load()), [n.left, n.right], []), n)
        return n

    def visit_AugAssign(self, n):
        self.generic_visit(n)
        if isinstance(n.op, (ast.Div, ast.Pow)) and isinstance(n.target, ast.Name):
            f = '__div' if isinstance(n.op, ast.Div) else '__pow'
            return ast.copy_location(ast.Assign([ast.Name(n.target.id, ast.Store())],
                                                ast.Call(ast.Name(f, ast.Load()), [ast.Name(n.target.id, ast.Load()), n.value], [])), n)
        if isinstance(n.op, (ast.Div, ast.Pow)):
            raise core.NotEncodable('augmented division on a non-name target')
        return n

    def visit_FunctionDef(self, n):
        self.generic_visit(n)
        n.returns = None
        for a in n.args.args + n.args.kwonlyargs + n.args.posonlyargs + [x for x in (n.args.vararg, n.args.kwarg) if x]:
            a.annotation = None
        return n

    def visit_AnnAssign(self, n):
        self.generic_visit(n)
        if n.value is None:
            return ast.copy_location(ast.Pass(), n)
        return ast.copy_location(ast.Assign([n.target], n.value), n)


def _numba_shim():
    m = types.ModuleType('numba(symnp)')

    def jit(*a, **k):
        if len(a) == 1 and callable(a[0]) and not k:
            return a[0]
        return lambda f: f
    m.jit = m.njit = jit
    return m


class Loaded:
    """the repository's modules, loaded on the shim"""

    def __init__(self, src=None):
        self.src = src or REPO_SRC
        self.uts = _uts_dir()
        self.np = nd.make_numpy()
        self.math = nd.make_math()
        self.numba = _numba_shim()
        self.mods = {}
        self.files = {}
        self.pkg = types.ModuleType('kneeliverse(symnp)')
        self.pkg.__path__ = []
        self.utspkg = types.ModuleType('uts(symnp)')
        self.utspkg.__path__ = []
        bi = dict(builtins.__dict__)
        bi.update(nd.BUILTINS)
        bi['__import__'] = self._import
        self.builtins = bi

    # ---------------------------------------------------------------------
    def _import(self, name, globals=None, locals=None, fromlist=(), level=0):
        if level:
            pkgname = (globals or {}).get('__package__') or ''
            base = pkgname.split('.')[0]
            if base in ('uts', 'kneeliverse'):
                if name:
                    name = base + '.' + name
                else:
                    for f in fromlist or ():
                        self._get(base + '.' + f)
                    return self.utspkg if base == 'uts' else self.pkg
            else:
                return builtins.__import__(name, globals, locals, fromlist, level)
        top = name.split('.')[0]
        if top == 'numpy':
            return self.np
        if top == 'math':
            return self.math
        if top == 'numba':
            return self.numba
        if top in ('uts', 'kneeliverse'):
            pk = self.utspkg if top == 'uts' else self.pkg
            if '.' in name:
                m = self._get(name)
                return m if fromlist else pk
            for f in fromlist or ():
                try:
                    self._get(top + '.' + f)
                except FileNotFoundError:
                    pass
            return pk
        return builtins.__import__(name, globals, locals, fromlist, level)

    def _get(self, full):
        if full in self.mods:
            return self.mods[full]
        top, _, sub = full.partition('.')
        path = os.path.join(self.src if top == 'kneeliverse' else self.uts, sub.replace('.', '/') + '.py')
        if not os.path.exists(path):
            raise FileNotFoundError(path)
        text = open(path).read()
        self.files[full] = hashlib.sha256(text.encode()).hexdigest()[:16]
        tree = _Rewrite().visit(ast.parse(text, path))
        ast.fix_missing_locations(tree)
        m = types.ModuleType(full)
        m.__file__ = path
        m.__package__ = top
        m.__dict__['__builtins__'] = self.builtins
        m.__dict__['__fr'] = Fr
        m.__dict__['__div'] = _div
        m.__dict__['__pow'] = _pow
        self.mods[full] = m
        setattr(self.utspkg if top == 'uts' else self.pkg, sub, m)
        exec(compile(tree, path, 'exec'), m.__dict__)
        return m

    # -- mutable state kept by the loaded code between calls (module-level containers, mutable default arguments):
    #    one explored path models one process run, so the state is put back to its load-time value before every path
    def snapshot_state(self):
        import copy
        self._state = []
        for m in list(self.mods.values()):
            for k, v in list(m.__dict__.items()):
                if k.startswith('__'):
                    continue
                if isinstance(v, (dict, list, set)):
                    self._state.append((v, copy.deepcopy(v)))
                fns = [v] if isinstance(v, types.FunctionType) else ([f for f in vars(v).values() if isinstance(f, types.FunctionType)] if isinstance(v, type) else [])
                for f in fns:
                    for d in list(f.__defaults__ or ()) + list((f.__kwdefaults__ or {}).values()):
                        if isinstance(d, (dict, list, set)):
                            self._state.append((d, copy.deepcopy(d)))

    def reset_state(self):
        import copy
        for obj, snap in getattr(self, '_state', ()):
            if isinstance(obj, dict):
                obj.clear()
                obj.update(copy.deepcopy(snap))
            elif isinstance(obj, list):
                obj[:] = copy.deepcopy(snap)
            else:
                obj.clear()
                obj.update(copy.deepcopy(snap))

    def __getattr__(self, name):
        # lf = linear_fit etc. resolved lazily: L.rdp, L.linear_fit, L.uts_gradient
        if name.startswith('uts_'):
            return self._get('uts.' + name[4:])
        try:
            return self._get('kneeliverse.' + name)
        except FileNotFoundError:
            raise AttributeError(name)


def _plain_eq(a, b):
    try:
        return type(a) is type(b) and bool(a == b)
    except Exception:
        return False


def _div(a, b):
    r = core.div(a, b) if not isinstance(a, nd.ndarray) and not isinstance(b, nd.ndarray) else None
    if r is None:
        return a.__truediv__(b) if isinstance(a, nd.ndarray) else b.__rtruediv__(a)
    if r is NotImplemented:
        return a / b
    return r


def _pow(a, b):
    if isinstance(a, nd.ndarray):
        return a ** b
    if isinstance(a, (int, Fr)) and isinstance(b, int) and not isinstance(a, bool) and b >= 0:
        return a ** b
    try:
        return core.spow(a, b)
    except TypeError:
        return a ** b


def load(src=None):
    return Loaded(src)


class Real:
    """the real package (concrete mode / replay): same attribute interface as Loaded"""

    def __init__(self):
        import numpy, math
        self.np = numpy
        self.math = math
        self.files = {}

    def __getattr__(self, name):
        if name.startswith('uts_'):
            return importlib.import_module('uts.' + name[4:])
        return importlib.import_module('kneeliverse.' + name)

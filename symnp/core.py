"""symnp.core -- symbolic scalars (polynomial normal form over atoms), boolean terms,
the path-exploration context and the solver policy (linear abstraction first, exact NRA second).

Nothing in here knows about kneeliverse.  The repository's real source is executed on these
scalars through symnp.nd (NumPy facade) and symnp.loader.
"""
from fractions import Fraction as Fr
import math as _math
import time, signal, os
import numpy as _np
import z3

# ----------------------------------------------------------------------------- outcomes


class PathAbort(BaseException):
    """Control-flow exceptions of the explorer (BaseException so that `except Exception` in
    analysed code cannot swallow them)."""


class Infeasible(PathAbort):
    pass


class StepLimit(PathAbort):
    pass


class PathTimeout(PathAbort):
    pass


class NotEncodable(PathAbort):
    pass


class DomainError(PathAbort):
    """division by zero / sqrt of a negative on a feasible path (NumPy would produce inf/nan)"""


CTX = None  # the current exploration context (one per process)


def ctx():
    return CTX


# ----------------------------------------------------------------------------- polynomials
# poly: dict {mono: Fr}, mono: tuple of (atom_id, power) sorted by atom id; () is the constant.

def _mono_mul(m1, m2):
    if not m1:
        return m2
    if not m2:
        return m1
    d = dict(m1)
    for a, p in m2:
        d[a] = d.get(a, 0) + p
    return tuple(sorted(d.items()))


def p_add(a, b):
    r = dict(a)
    for m, c in b.items():
        v = r.get(m, 0) + c
        if v:
            r[m] = v
        else:
            r.pop(m, None)
    return r


def p_scale(a, c):
    if c == 0:
        return {}
    return {m: v * c for m, v in a.items()}


def p_mul(a, b):
    if len(a) > len(b):
        a, b = b, a
    r = {}
    for m1, c1 in a.items():
        for m2, c2 in b.items():
            m = _mono_mul(m1, m2)
            v = r.get(m, 0) + c1 * c2
            if v:
                r[m] = v
            else:
                r.pop(m, None)
    return r


def p_const(p):
    """Fr value if p is constant else None"""
    if not p:
        return Fr(0)
    if len(p) == 1 and () in p:
        return p[()]
    return None


def p_key(p):
    return tuple(sorted(p.items()))


def p_degree(p):
    return max((sum(e for _, e in m) for m in p), default=0)


import decimal as _dec
_DC = _dec.Context(prec=90)
_TINY = _dec.Decimal('1e-45')


def _dfr(f):
    return _DC.divide(_dec.Decimal(f.numerator), _dec.Decimal(f.denominator))


def p_num(p):
    """high-precision numeric value of a closed polynomial (every atom has a numeric value), else None"""
    vals = CTX.atom_val
    tot = _dec.Decimal(0)
    for m, c in p.items():
        t = _dfr(c)
        for a, e in m:
            v = vals.get(a)
            if v is None:
                return None
            t = _DC.multiply(t, _DC.power(v, e))
        tot = _DC.add(tot, t)
    return tot


def p_sign(p):
    """sign (-1, 0, 1) of a polynomial if it can be decided without the solver, else None"""
    c = p_const(p)
    if c is not None:
        return (c > 0) - (c < 0)
    v = p_num(p)
    if v is None:
        return None
    if abs(v) > _TINY:
        return 1 if v > 0 else -1
    return None


def p_reduce(p):
    """normal form modulo  s^2 = radicand  for every sqrt atom s"""
    rad = CTX.sqrt_rad
    if not rad:
        return p
    todo = None
    for m in p:
        for a, e in m:
            if e > 1 and a in rad:
                todo = True
                break
        if todo:
            break
    if not todo:
        return p
    out = {}
    for m, c in p.items():
        hit = [(a, e) for a, e in m if e > 1 and a in rad]
        if not hit:
            v = out.get(m, 0) + c
            if v:
                out[m] = v
            else:
                out.pop(m, None)
            continue
        rest = tuple((a, e) for a, e in m if not (e > 1 and a in rad))
        term = {rest: c}
        for a, e in hit:
            r = rad[a]
            for _ in range(e // 2):
                term = p_mul(term, r)
            if e % 2:
                term = p_mul(term, {((a, 1),): Fr(1)})
        out = p_add(out, p_reduce(term))
    return out


def _squarefree_split(n):
    """n = s*s*k, k square-free; returns (s, [prime factors of k], cofactor) using trial division up to 10^6"""
    s, primes = 1, []
    d = 2
    while d * d <= n and d < 1000000:
        if n % d == 0:
            e = 0
            while n % d == 0:
                n //= d
                e += 1
            s *= d ** (e // 2)
            if e % 2:
                primes.append(d)
        d += 1 if d == 2 else 2
    r = _math.isqrt(n)
    if n > 1 and r * r == n:
        s *= r
        n = 1
    return s, primes, n


def to_fr(v):
    """exact rational value of a concrete python/numpy number, or None"""
    if isinstance(v, Fr):
        return v
    if isinstance(v, bool) or isinstance(v, _np.bool_):
        return Fr(int(v))
    if isinstance(v, int):
        return Fr(v)
    if isinstance(v, float):
        if v != v or v in (float('inf'), float('-inf')):
            raise NotEncodable('non-finite float')
        return Fr(v)
    if isinstance(v, _np.integer):
        return Fr(int(v))
    if isinstance(v, _np.floating):
        return to_fr(float(v))
    return None


def _poly_of(v):
    if isinstance(v, S):
        return v.p
    f = to_fr(v)
    if f is None:
        return None
    return {(): f} if f else {}


def mk(p, nn=False, pos=False):
    if CTX is not None and CTX.sqrt_rad:
        p = p_reduce(p)
    c = p_const(p)
    if c is not None:
        return c
    return S(p, nn, pos)


def is_sym(v):
    return isinstance(v, (S, B))


# ----------------------------------------------------------------------------- symbolic real


class S:
    """symbolic real: polynomial with rational coefficients over atoms"""
    __slots__ = ('p', 'nn', 'pos', '_z', '_l', '_k')
    __array_priority__ = 1e9
    __hash__ = None

    def __init__(self, p, nn=False, pos=False):
        self.p = p
        self.nn = nn or pos  # statically known to be >= 0
        self.pos = pos       # statically known to be > 0
        self._z = self._l = self._k = None

    # arithmetic -------------------------------------------------------------
    def __add__(s, o):
        q = _poly_of(o)
        if q is None:
            return NotImplemented
        nn = s.nn and _nn(o)
        return mk(p_add(s.p, q), nn, nn and (s.pos or _pos(o)))
    __radd__ = __add__

    def __sub__(s, o):
        q = _poly_of(o)
        if q is None:
            return NotImplemented
        return mk(p_add(s.p, p_scale(q, -1)))

    def __rsub__(s, o):
        q = _poly_of(o)
        if q is None:
            return NotImplemented
        return mk(p_add(q, p_scale(s.p, -1)))

    def __mul__(s, o):
        q = _poly_of(o)
        if q is None:
            return NotImplemented
        same = o is s or (isinstance(o, S) and o.p == s.p)
        a = s.p
        if len(a) > 1 and len(q) > 1 and len(a) * len(q) > EXPAND_LIMIT:
            # keep big products factored: name the factors (definition atoms) instead of expanding
            a = _defpoly(a, s.nn)
            q = a if same else _defpoly(q, _nn(o))
        return mk(p_mul(a, q), same or (s.nn and _nn(o)), s.pos and (same or _pos(o)))
    __rmul__ = __mul__

    def __truediv__(s, o):
        return div(s, o)

    def __rtruediv__(s, o):
        return div(o, s)

    def __neg__(s):
        return mk(p_scale(s.p, -1))

    def __pos__(s):
        return s

    def __abs__(s):
        return sabs(s)

    def __pow__(s, o):
        return spow(s, o)

    def __rpow__(s, o):
        raise NotEncodable('symbolic exponent')

    def __float__(s):
        raise NotEncodable('float() of a symbolic value')

    def __floordiv__(s, o):
        return sfloor(div(s, o))

    def __rfloordiv__(s, o):
        return sfloor(div(o, s))

    def __mod__(s, o):
        return s - o * sfloor(div(s, o))

    def __rmod__(s, o):
        return o - s * sfloor(div(o, s))

    def __trunc__(s):
        return sint(s)

    def __floor__(s):
        return sfloor(s)

    def __ceil__(s):
        return sceil(s)

    def __bool__(s):
        # truthiness of a real (`if x:`, `x and y`, `not x`): x != 0, a branch like any other comparison
        r = (s != 0)
        return r if isinstance(r, bool) else CTX.decide(r)

    def __int__(s):
        return sint(s)

    def __index__(s):
        raise NotEncodable('symbolic value used as an index')

    def __round__(s, nd=None):
        raise NotEncodable('round() of symbolic value')

    # comparisons ------------------------------------------------------------
    def _cmp(s, o, op):
        q = _poly_of(o)
        if q is None:
            return NotImplemented
        return mkcmp(op, p_add(s.p, p_scale(q, -1)))

    def __lt__(s, o): return s._cmp(o, 'lt')
    def __le__(s, o): return s._cmp(o, 'le')
    def __gt__(s, o): return s._cmp(o, 'gt')
    def __ge__(s, o): return s._cmp(o, 'ge')

    def __eq__(s, o):
        r = s._cmp(o, 'eq')
        return False if r is NotImplemented else r

    def __ne__(s, o):
        r = s._cmp(o, 'ne')
        return True if r is NotImplemented else r

    def key(s):
        if s._k is None:
            s._k = p_key(s.p)
        return s._k

    def __repr__(s):
        return 'S(%s)' % poly_str(s.p)

    # z3 ---------------------------------------------------------------------
    def z(s, lin=False):
        if lin:
            if s._l is None:
                s._l = CTX.poly_z(s.p, True)
            return s._l
        if s._z is None:
            s._z = CTX.poly_z(s.p, False)
        return s._z


def poly_str(p):
    out = []
    for m, c in sorted(p.items()):
        t = '*'.join(('%s^%d' % (CTX.atom_name(a), e) if e > 1 else CTX.atom_name(a)) for a, e in m) if CTX else str(m)
        out.append('%s%s' % (c, ('*' + t) if t else ''))
    return ' + '.join(out) or '0'


def _nn(v):
    if isinstance(v, S):
        return v.nn
    f = to_fr(v)
    return f is not None and f >= 0


def _pos(v):
    if isinstance(v, S):
        return v.pos
    f = to_fr(v)
    return f is not None and f > 0


EXPAND_LIMIT = 400


def _defpoly(p, nn=False):
    aid = CTX.atom(('def', p_key(p)), lambda: ('def', p))
    return {((aid, 1),): Fr(1)}


def mkcmp(op, p):
    """comparison of poly p against 0"""
    c = p_sign(p)
    if c is not None:
        return {'lt': c < 0, 'le': c <= 0, 'gt': c > 0, 'ge': c >= 0, 'eq': c == 0, 'ne': c != 0}[op]
    f = _factor_nn(p)
    if f is not None:
        mono, q = f
        sq = p_sign(q)
        if sq is not None and sq != 0:
            if not mono:            # only strictly positive closed atoms were factored out
                return {'lt': sq < 0, 'le': sq < 0, 'gt': sq > 0, 'ge': sq > 0, 'eq': False, 'ne': True}[op]
            A = {mono: Fr(1)}
            a_pos, a_zero = B('lt', p_scale(A, -1)), B('eq', A)
            if sq < 0:
                op = {'lt': 'gt', 'le': 'ge', 'gt': 'lt', 'ge': 'le'}.get(op, op)
            # now p has the sign of the non-negative monomial A
            return {'gt': a_pos, 'ge': True, 'lt': False, 'le': a_zero, 'eq': a_zero, 'ne': a_pos}[op]
    if op == 'gt':
        return B('lt', p_scale(p, -1))
    if op == 'ge':
        return B('le', p_scale(p, -1))
    return B(op, p)


def _factor_nn(p):
    """(mono, q) with p == P * mono * q where mono is a product of atoms known to be >= 0 occurring in every monomial and
    P > 0 a product of closed atoms with positive value (dropped: it does not change the sign); None if nothing factors"""
    if CTX is None or len(p) < 2:
        return None
    common = None
    for m in p:
        ats = set(a for a, _ in m if CTX.atom_nonneg(a))
        common = ats if common is None else (common & ats)
        if not common:
            return None
    q = {}
    for m, c in p.items():
        mm = tuple((x, e - 1) if x in common else (x, e) for x, e in m if not (x in common and e == 1))
        q[mm] = q.get(mm, 0) + c
    mono = tuple(sorted((a, 1) for a in common if not (CTX.atom_val.get(a) is not None and CTX.atom_val[a] > _TINY)))
    return mono, q


# ----------------------------------------------------------------------------- booleans


class B:
    """symbolic boolean: ('lt'|'le'|'eq'|'ne', poly) | ('and'|'or', [B...]) | ('not', B)"""
    __slots__ = ('op', 'a', '_z', '_l')
    __hash__ = None
    __array_priority__ = 1e9

    def __init__(self, op, a):
        self.op = op
        self.a = a
        self._z = self._l = None

    def __bool__(self):
        return CTX.decide(self)

    def __and__(s, o):
        return band(s, o)
    __rand__ = __and__

    def __or__(s, o):
        return bor(s, o)
    __ror__ = __or__

    def __invert__(s):
        return bnot(s)

    def __mul__(s, o):  # numpy idiom: mask1 * mask2
        return band(s, o)
    __rmul__ = __mul__

    def __eq__(s, o):
        if isinstance(o, (B, bool, _np.bool_)):
            return bor(band(s, o), band(bnot(s), bnot(o)))
        return NotImplemented

    def z(s, lin=False):
        cur = s._l if lin else s._z
        if cur is not None:
            return cur
        if s.op in ('lt', 'le', 'eq', 'ne'):
            e = CTX.poly_z(s.a, lin)
            r = {'lt': e < 0, 'le': e <= 0, 'eq': e == 0, 'ne': e != 0}[s.op]
        elif s.op == 'and':
            r = z3.And(*[x.z(lin) for x in s.a])
        elif s.op == 'or':
            r = z3.Or(*[x.z(lin) for x in s.a])
        elif s.op == 'not':
            r = z3.Not(s.a.z(lin))
        else:
            raise AssertionError(s.op)
        if lin:
            s._l = r
        else:
            s._z = r
        return r

    def nonlinear(s):
        if s.op in ('lt', 'le', 'eq', 'ne'):
            return CTX.poly_nonlinear(s.a)
        if s.op == 'not':
            return s.a.nonlinear()
        return any(x.nonlinear() for x in s.a)

    def __repr__(s):
        if s.op in ('lt', 'le', 'eq', 'ne'):
            return '(%s %s 0)' % (poly_str(s.a), {'lt': '<', 'le': '<=', 'eq': '==', 'ne': '!='}[s.op])
        if s.op == 'not':
            return '!%r' % (s.a,)
        return '(' + (' & ' if s.op == 'and' else ' | ').join(map(repr, s.a)) + ')'


def _asbool(v):
    if isinstance(v, B):
        return v
    if isinstance(v, (bool, _np.bool_)):
        return bool(v)
    if isinstance(v, (int, _np.integer)):
        return bool(v)
    raise TypeError('not a boolean: %r' % (v,))


def band(*xs):
    out = []
    for x in xs:
        x = _asbool(x)
        if x is False:
            return False
        if x is True:
            continue
        if x.op == 'and':
            out.extend(x.a)
        else:
            out.append(x)
    if not out:
        return True
    return out[0] if len(out) == 1 else B('and', out)


def bor(*xs):
    out = []
    for x in xs:
        x = _asbool(x)
        if x is True:
            return True
        if x is False:
            continue
        if x.op == 'or':
            out.extend(x.a)
        else:
            out.append(x)
    if not out:
        return False
    return out[0] if len(out) == 1 else B('or', out)


_NEG = {'lt': 'le', 'le': 'lt'}


def bnot(x):
    x = _asbool(x)
    if x is True:
        return False
    if x is False:
        return True
    if x.op == 'not':
        return x.a
    if x.op in ('lt', 'le'):   # !(p<0) == (-p <= 0)
        return B(_NEG[x.op], p_scale(x.a, -1))
    if x.op == 'eq':
        return B('ne', x.a)
    if x.op == 'ne':
        return B('eq', x.a)
    return B('not', x)


def implies(a, b):
    return bor(bnot(a), b)


def iff(a, b):
    return band(implies(a, b), implies(b, a))


# ----------------------------------------------------------------------------- non-polynomial operations


def div(a, b):
    pa, pb = _poly_of(a), _poly_of(b)
    if pa is None or pb is None:
        return NotImplemented
    cb = p_const(pb)
    if cb is not None:
        if cb == 0:
            raise DomainError('division by concrete zero')
        return mk(p_scale(pa, 1 / cb), _nn(a) and cb > 0, _pos(a) and cb > 0)
    if len(pb) == 1:
        # denominator c * s1*s2*.. with sqrt atoms of constant radicands: rationalise
        (m, c), = pb.items()
        rad = CTX.sqrt_rad
        if m and all(a in rad and p_const(rad[a]) is not None for a, _ in m):
            den = c
            num = pa
            for a, e in m:
                r = p_const(rad[a])
                den = den * r ** ((e + 1) // 2)
                if e % 2:
                    num = p_mul(num, {((a, 1),): Fr(1)})
            return mk(p_scale(num, 1 / den))
    bpos = _pos(b)
    if not pa:
        if not bpos:
            CTX.require_nonzero(pb)
        return Fr(0)
    # proportional polynomials -> constant
    if len(pa) == len(pb) and set(pa) == set(pb):
        m0 = next(iter(pb))
        c = pa[m0] / pb[m0]
        if all(pa[m] == c * pb[m] for m in pb):
            if not bpos:
                CTX.require_nonzero(pb)
            return c
    if not bpos:
        CTX.require_nonzero(pb)
    # pull a constant factor out of the denominator so that equal quotients share one atom
    lead = pb[min(pb)]
    pbn = p_scale(pb, 1 / lead)
    la = pa[min(pa)]
    pan = p_scale(pa, 1 / la)
    fresh = ('div', p_key(pan), p_key(pbn)) not in CTX.atom_ix
    aid = CTX.atom(('div', p_key(pan), p_key(pbn)), lambda: ('div', pan, pbn))
    if fresh and bpos:
        CTX.sign_lemma(aid, pan, 1 if lead > 0 else -1)
    return mk({((aid, 1),): la / lead}, _nn(a) and bpos, _pos(a) and bpos)


def _perfect_square(p):
    """p == k * q^2 for a polynomial q that is linear in the atoms and k > 0?  returns (k, q) or None"""
    lead = None
    for m, c in p.items():
        if len(m) == 1 and m[0][1] == 2:
            lead = (m[0][0], c)
            break
    if lead is None:
        return None
    a, k = lead
    if k <= 0:
        return None
    q = {((a, 1),): Fr(1)}
    for m, c in p.items():
        if len(m) == 2 and m[0][1] == 1 and m[1][1] == 1 and a in (m[0][0], m[1][0]):
            b = m[1][0] if m[0][0] == a else m[0][0]
            q[((b, 1),)] = c / (2 * k)
        elif len(m) == 1 and m[0] == (a, 1):
            q[()] = c / (2 * k)
    if p_scale(p_mul(q, q), k) == p:
        return k, q
    return None


def ssqrt(v):
    p = _poly_of(v)
    if p is None:
        return NotImplemented
    c = p_const(p)
    if c is not None:
        if c < 0:
            raise DomainError('sqrt of a negative constant')
        n, d = c.numerator, c.denominator
        rn, rd = _math.isqrt(n), _math.isqrt(d)
        if rn * rn == n and rd * rd == d:
            return Fr(rn, rd)
        # sqrt(n/d) = sqrt(n*d)/d = (sq/d) * prod sqrt(prime)  -- canonical basis of Q(sqrt primes)
        sq, primes, cof = _squarefree_split(n * d)
        m = []
        for q in primes + ([cof] if cof > 1 else []):
            rp = {(): Fr(q)}
            aid = CTX.atom(('sqrt', p_key(rp)), lambda rp=rp: ('sqrt', rp))
            m.append((aid, 1))
        return S({tuple(sorted(m)): Fr(sq, d)}, True)
    else:
        sq = _perfect_square(p)
        if sq is not None:
            k, q = sq              # p == k * q^2 with k > 0 rational
            return ssqrt(k) * sabs(mk(q))
        if not (isinstance(v, S) and v.nn):
            CTX.require_nonneg(p)
        # c * m^2 with c a rational square and m a monomial with even powers -> |..| shortcut skipped on purpose
    fresh = ('sqrt', p_key(p)) not in CTX.atom_ix
    aid = CTX.atom(('sqrt', p_key(p)), lambda: ('sqrt', p))
    ispos = _pos(v)
    if fresh and ispos:
        z = CTX.atom_zc[(aid, False)]
        CTX._assert_z(z > 0, z > 0, False)
    return S({((aid, 1),): Fr(1)}, True, ispos)


def sabs(v):
    if isinstance(v, S):
        if v.nn:
            return v
        sg = p_sign(v.p)
        if sg is not None:
            return mk(p_scale(v.p, 1 if sg >= 0 else -1), True)
        if len(v.p) == 1:
            # c * monomial with all even powers
            (m, c), = v.p.items()
            if all(e % 2 == 0 for _, e in m):
                return mk(p_scale(v.p, 1 if c > 0 else -1), True)
        # canonical sign so that |p| and |-p| share one atom
        k = p_key(v.p)
        p = v.p
        if k[0][1] < 0:
            p = p_scale(p, -1)
            k = p_key(p)
        aid = CTX.atom(('abs', k), lambda: ('abs', p))
        return S({((aid, 1),): Fr(1)}, True)
    f = to_fr(v)
    if f is None:
        return NotImplemented
    return abs(f)


def ite(c, a, b):
    """if-then-else value without forking"""
    c = _asbool(c)
    if c is True:
        return a
    if c is False:
        return b
    pa, pb = _poly_of(a), _poly_of(b)
    if pa == pb:
        return a
    aid = CTX.atom(('ite', id(c), p_key(pa), p_key(pb)), lambda: ('ite', c, pa, pb))
    return S({((aid, 1),): Fr(1)}, _nn(a) and _nn(b), _pos(a) and _pos(b))


def smax(a, b):
    if not isinstance(a, S) and not isinstance(b, S):
        fa, fb = to_fr(a), to_fr(b)
        return a if fa >= fb else b
    pa, pb = _poly_of(a), _poly_of(b)
    d = p_add(pa, p_scale(pb, -1))
    c = p_sign(d)
    if c is not None:
        return a if c >= 0 else b
    aid = CTX.atom(('max', p_key(pa), p_key(pb)), lambda: ('max', pa, pb))
    return S({((aid, 1),): Fr(1)}, _nn(a) or _nn(b), _pos(a) or _pos(b))


def smin(a, b):
    if not isinstance(a, S) and not isinstance(b, S):
        fa, fb = to_fr(a), to_fr(b)
        return a if fa <= fb else b
    pa, pb = _poly_of(a), _poly_of(b)
    d = p_add(pa, p_scale(pb, -1))
    c = p_sign(d)
    if c is not None:
        return a if c <= 0 else b
    aid = CTX.atom(('min', p_key(pa), p_key(pb)), lambda: ('min', pa, pb))
    return S({((aid, 1),): Fr(1)}, _nn(a) and _nn(b), _pos(a) and _pos(b))


def spow(a, e):
    fe = to_fr(e)
    if fe is None:
        raise NotEncodable('symbolic exponent')
    if fe.denominator == 1:
        n = int(fe)
        if n < 0:
            return div(1, spow(a, -n))
        r = Fr(1)
        for _ in range(n):
            r = r * a
        if isinstance(r, S) and n % 2 == 0:
            r.nn = True
        if isinstance(r, S) and _pos(a):
            r.nn = r.pos = True
        return r
    if fe.denominator == 2:
        r = ssqrt(a)
        out = Fr(1)
        for _ in range(abs(fe.numerator)):
            out = out * r
        if isinstance(out, S):
            out.nn = True
        return out if fe > 0 else div(1, out)
    raise NotEncodable('exponent %s' % fe)


def uf(name, arg, nn=False):
    p = _poly_of(arg)
    aid = CTX.atom(('uf', name, p_key(p)), lambda: ('uf', name, p))
    return S({((aid, 1),): Fr(1)}, nn)


def sint(v):
    """int() of a symbolic real: case split over the integer part (truncation toward zero)."""
    if not isinstance(v, S):
        return int(v)
    lo, hi = CTX.int_range
    # truncation: for v >= 0 floor, else ceil
    if bool(v >= 0):
        for k in range(0, hi + 1):
            if bool(v < k + 1):
                return k
    else:
        for k in range(0, -lo + 1):
            if bool(v > -(k + 1)):
                return -k
    raise NotEncodable('int() of symbolic value outside the stated range %s' % (CTX.int_range,))


def sceil(v):
    if not isinstance(v, S):
        f = to_fr(v)
        return -((-f.numerator) // f.denominator)
    lo, hi = CTX.int_range
    if bool(v > 0):
        for k in range(1, hi + 1):
            if bool(v <= k):
                return k
    else:
        for k in range(0, -lo + 1):
            if bool(v > -(k + 1)):
                return -k
    raise NotEncodable('ceil() of symbolic value outside the stated range')


def sfloor(v):
    if not isinstance(v, S):
        f = to_fr(v)
        return f.numerator // f.denominator
    return -sceil(-v)


# ----------------------------------------------------------------------------- context


class Ctx:
    def __init__(self, qtimeout_ms=10000, step_limit=4000, path_wall_s=120, nra_at_decide=True,
                 divzero='fork', int_range=(-16, 16)):
        self.qtimeout = qtimeout_ms
        self.step_limit = step_limit
        self.path_wall_s = path_wall_s
        self.nra_at_decide = nra_at_decide
        self.divzero = divzero          # 'fork' (path outcome) | 'assume'
        self.int_range = int_range
        self.stats = dict(paths=0, decisions=0, queries=0, lin_unsat=0, nra_queries=0, unknown=0,
                          solver_s=0.0, obligations=0, discharged=0, trivially=0, infeasible=0, decide_unknown=0)
        self.assumption_notes = set()
        self.nice_budget = 12
        self.decide_nra_ms = 1500
        self.begin([])

    # -- per path state ---------------------------------------------------------
    def begin(self, prefix):
        self.prefix = list(prefix)
        self.pos = 0
        self.trace = []
        self.pending = []
        self.steps = 0
        self.atoms = []          # aid -> (kind, payload...)
        self.atom_ix = {}
        self.atom_zc = {}        # (aid, lin) -> z3 expr
        self.atom_val = {}       # aid -> Decimal value of closed atoms
        self.sqrt_rad = {}       # aid -> radicand polynomial of sqrt atoms
        self.sqrt_order = []     # sqrt atoms with symbolic radicand, in creation order
        self.mono_vars = {}      # mono -> z3 const (linear abstraction)
        self.inputs = {}         # name -> aid
        self.int_inputs = set()
        self.nn_atoms = set()
        self.hints = {}
        self.has_ints = False
        self.pc = []             # exact z3 path condition
        self.pc_nl = False       # path condition has non-linear content
        self.lin = z3.SolverFor('QF_UFLRA')
        self.lin.set('timeout', self.qtimeout)
        self.model = None        # model of the linear abstraction, if still valid
        self.obl = []            # obligations of this path
        self.notes = []
        self.counters = {}
        self.nonzero_known = set()
        self.nonneg_known = set()
        self.tie_count = 0
        self.decide_unknown_here = 0

    # -- atoms --------------------------------------------------------------------
    def var(self, name, nn=False):
        if name in self.inputs:
            aid = self.inputs[name]
        else:
            aid = len(self.atoms)
            self.atoms.append(('var', name))
            self.inputs[name] = aid
            if nn:
                self.nn_atoms.add(aid)
                self._assert_z(z3.Real(name) >= 0, z3.Real(name) >= 0, False)
        return S({((aid, 1),): Fr(1)}, nn)

    def ivar(self, name, lo=None):
        """integer-valued solver variable (used as a real term: ToReal(Int))"""
        if name in self.inputs:
            aid = self.inputs[name]
        else:
            aid = len(self.atoms)
            self.atoms.append(('ivar', name))
            self.inputs[name] = aid
            self.int_inputs.add(name)
            if not self.has_ints:
                self.has_ints = True
                lin = z3.Solver()           # mixed integer/real linear arithmetic
                lin.set('timeout', self.qtimeout)
                for a in self.lin.assertions():
                    lin.add(a)
                self.lin = lin
            if lo is not None:
                e = z3.ToReal(z3.Int(name)) >= lo
                self._assert_z(e, e, False)
        return S({((aid, 1),): Fr(1)}, lo is not None and lo >= 0)

    def atom_nonneg(self, aid):
        k = self.atoms[aid][0]
        return k in ('abs', 'sqrt') or aid in self.nn_atoms

    def sign_lemma(self, aid, num, sgn):
        """quotient atom q = num / den with den of known sign: q has the sign of sgn*num (valid fact, linear)"""
        q = self.atom_zc[(aid, False)]
        for lin in (False, True):
            n = self.poly_z(num, lin)
            n = n if sgn > 0 else -n
            lem = z3.And((q > 0) == (n > 0), (q == 0) == (n == 0))
            if lin:
                self.lin.add(lem)
            else:
                self.pc.append(lem)

    def integral(self, s):
        """is the symbolic value an integer-valued term (integer combination of integer variables)?"""
        p = s.p if isinstance(s, S) else s
        for m, c in p.items():
            if c.denominator != 1:
                return False
            for a, _ in m:
                at = self.atoms[a]
                if at[0] == 'ivar':
                    continue
                if at[0] in ('max', 'min') and self.integral(at[1]) and self.integral(at[2]):
                    continue
                if at[0] == 'abs' and self.integral(at[1]):
                    continue
                return False
        return True

    def atom(self, key, build):
        aid = self.atom_ix.get(key)
        if aid is not None:
            return aid
        aid = len(self.atoms)
        self.atom_ix[key] = aid
        self.atoms.append(build())
        kind = self.atoms[aid][0]
        self._atom_value(aid)
        if kind == 'sqrt':
            p = self.atoms[aid][1]
            self.sqrt_rad[aid] = p
            s = z3.Real('sqrt!%d' % aid)
            for lin in (False, True):
                self.atom_zc[(aid, lin)] = s
            sq = {((aid, 2),): Fr(1)}
            self._assert_z(z3.And(s >= 0, self.poly_z(sq, False) == self.poly_z(p, False)),
                           z3.And(s >= 0, self.poly_z(sq, True) == self.poly_z(p, True)), True)
            # monotonicity lemmas against earlier roots (valid facts; they let the linear layer compare roots)
            if p_const(p) is None:
                for other in self.sqrt_order[-16:]:
                    po = self.sqrt_rad[other]
                    so = self.atom_zc[(other, False)]
                    for lin in (False, True):
                        a, b = self.poly_z(p, lin), self.poly_z(po, lin)
                        lem = z3.And((s < so) == (a < b), (s == so) == (a == b))
                        if lin:
                            self.lin.add(lem)
                        else:
                            self.pc.append(lem)
                self.sqrt_order.append(aid)
        elif kind == 'div':
            _, pa, pb = self.atoms[aid]
            q = z3.Real('div!%d' % aid)
            for lin in (False, True):
                self.atom_zc[(aid, lin)] = q
            prod = p_mul({((aid, 1),): Fr(1)}, pb)
            self._assert_z(self.poly_z(prod, False) == self.poly_z(pa, False),
                           self.poly_z(prod, True) == self.poly_z(pa, True), True)
        return aid

    def _atom_value(self, aid):
        a = self.atoms[aid]
        k = a[0]
        v = None
        try:
            if k == 'sqrt':
                x = p_num(a[1])
                v = _DC.sqrt(x) if x is not None and x >= 0 else None
            elif k == 'div':
                x, y = p_num(a[1]), p_num(a[2])
                v = _DC.divide(x, y) if x is not None and y is not None and abs(y) > _TINY else None
            elif k == 'abs':
                x = p_num(a[1])
                v = abs(x) if x is not None else None
            elif k == 'def':
                v = p_num(a[1])
            elif k in ('max', 'min'):
                x, y = p_num(a[1]), p_num(a[2])
                v = (max(x, y) if k == 'max' else min(x, y)) if x is not None and y is not None else None
            elif k == 'uf' and a[1] in ('log', 'exp'):
                x = p_num(a[2])
                if x is not None:
                    v = _DC.ln(x) if a[1] == 'log' else _DC.exp(x)
        except (_dec.InvalidOperation, _dec.DivisionByZero, _dec.Overflow):
            v = None
        if v is not None:
            self.atom_val[aid] = v

    def atom_name(self, aid):
        a = self.atoms[aid]
        return a[1] if a[0] in ('var', 'ivar') else '%s!%d' % (a[0], aid)

    def atom_z(self, aid, lin):
        r = self.atom_zc.get((aid, lin))
        if r is not None:
            return r
        a = self.atoms[aid]
        k = a[0]
        if k == 'var':
            r = z3.Real(a[1])
        elif k == 'ivar':
            r = z3.ToReal(z3.Int(a[1]))
        elif k == 'abs':
            e = self.poly_z(a[1], lin)
            r = z3.If(e >= 0, e, -e)
        elif k == 'def':
            r = self.poly_z(a[1], lin)
        elif k == 'max':
            x, y = self.poly_z(a[1], lin), self.poly_z(a[2], lin)
            r = z3.If(x >= y, x, y)
        elif k == 'min':
            x, y = self.poly_z(a[1], lin), self.poly_z(a[2], lin)
            r = z3.If(x <= y, x, y)
        elif k == 'ite':
            r = z3.If(a[1].z(lin), self.poly_z(a[2], lin), self.poly_z(a[3], lin))
        elif k == 'uf':
            f = z3.Function('uf_' + a[1], z3.RealSort(), z3.RealSort())
            r = f(self.poly_z(a[2], lin))
        else:
            raise AssertionError(k)
        self.atom_zc[(aid, lin)] = r
        return r

    def poly_nonlinear(self, p):
        for m in p:
            if sum(e for _, e in m) > 1:
                return True
            for a, _ in m:
                if self.atom_nl(a):
                    return True
        return False

    def atom_nl(self, aid):
        a = self.atoms[aid]
        k = a[0]
        if k in ('var', 'ivar'):
            return False
        if k in ('sqrt', 'div'):
            return True
        if k in ('abs', 'def'):
            return self.poly_nonlinear(a[1])
        if k in ('max', 'min'):
            return self.poly_nonlinear(a[1]) or self.poly_nonlinear(a[2])
        if k == 'ite':
            return a[1].nonlinear() or self.poly_nonlinear(a[2]) or self.poly_nonlinear(a[3])
        if k == 'uf':
            return self.poly_nonlinear(a[2])
        return True

    def poly_z(self, p, lin):
        if not p:
            return z3.RealVal(0)
        terms = []
        for m, c in p.items():
            if not m:
                terms.append(z3.RealVal(c))
                continue
            deg = sum(e for _, e in m)
            if lin and deg > 1:
                v = self.mono_vars.get(m)
                if v is None:
                    v = z3.Real('m!' + '*'.join('%d^%d' % ae for ae in m))
                    self.mono_vars[m] = v
                    if all(e % 2 == 0 for _, e in m):
                        self.lin.add(v >= 0)
                t = v
            else:
                t = None
                for a, e in m:
                    az = self.atom_z(a, lin)
                    for _ in range(e):
                        t = az if t is None else t * az
            terms.append(t if c == 1 else z3.RealVal(c) * t)
        return terms[0] if len(terms) == 1 else z3.Sum(terms)

    # -- assertions ------------------------------------------------------------------
    def _assert_z(self, ze, zl, nl):
        self.pc.append(ze)
        self.lin.add(zl)
        if nl:
            self.pc_nl = True
        if self.model is not None:
            try:
                if not z3.is_true(self.model.eval(zl, model_completion=True)):
                    self.model = None
            except z3.Z3Exception:
                self.model = None

    def assume(self, b, note=None):
        b = _asbool(b)
        if note:
            self.assumption_notes.add(note)
        if b is True:
            return
        if b is False:
            raise Infeasible()
        self._assert_z(b.z(False), b.z(True), b.nonlinear())

    def require_nonzero(self, p):
        c = mkcmp('ne', p)
        if c is True:
            return
        k = p_key(p)
        if k in self.nonzero_known:
            return
        self.nonzero_known.add(k)
        if self.divzero == 'assume':
            self.assume(c, 'denominators are non-zero')
            return
        if not self.decide(c):
            raise DomainError('division by zero')

    def require_nonneg(self, p):
        c = mkcmp('ge', p)
        if c is True:
            return
        k = p_key(p)
        if k in self.nonneg_known:
            return
        self.nonneg_known.add(k)
        if not self.decide(c):
            raise DomainError('sqrt of a negative value')

    # -- solver access --------------------------------------------------------------
    def _lin_check(self, zl):
        t = time.time()
        self.lin.push()
        self.lin.add(zl)
        r = self.lin.check()
        m = self.lin.model() if r == z3.sat else None
        self.lin.pop()
        self.stats['queries'] += 1
        self.stats['solver_s'] += time.time() - t
        return str(r), m

    def _nra_check(self, extra, timeout_ms=None, ladder=True):
        t = time.time()
        s = z3.Solver()
        s.set('timeout', timeout_ms or self.qtimeout)
        for a in self.pc:
            s.add(a)
        for e in extra:
            s.add(e)
        r = s.check()
        if r == z3.unknown and ladder:
            # second opinion: the nlsat tactic on a fresh goal
            try:
                s2 = z3.Tactic('qfnra-nlsat').solver()
                s2.set('timeout', timeout_ms or self.qtimeout)
                for a in self.pc:
                    s2.add(a)
                for e in extra:
                    s2.add(e)
                r2 = s2.check()
                if r2 != z3.unknown:
                    r, s = r2, s2
            except z3.Z3Exception:
                pass
        self.stats['nra_queries'] += 1
        self.stats['queries'] += 1
        self.stats['solver_s'] += time.time() - t
        if r == z3.unknown and os.environ.get('SYMNP_DUMP'):
            d = os.environ['SYMNP_DUMP']
            os.makedirs(d, exist_ok=True)
            s3 = z3.Solver()
            for a in self.pc:
                s3.add(a)
            for e in extra:
                s3.add(e)
            open(os.path.join(d, 'unk-%d-%d.smt2' % (os.getpid(), self.stats['queries'])), 'w').write(s3.to_smt2())
        m = s.model() if r == z3.sat else None
        return str(r), m

    def feasible(self, b, quick=True):
        """'sat' | 'unsat' | 'unknown' for  path-condition AND b  (b: B)"""
        if self.model is not None:
            try:
                if z3.is_true(self.model.eval(b.z(True), model_completion=True)):
                    r, m = 'sat', self.model
                else:
                    r, m = self._lin_check(b.z(True))
            except z3.Z3Exception:
                r, m = self._lin_check(b.z(True))
        else:
            r, m = self._lin_check(b.z(True))
        if r == 'unsat':
            self.stats['lin_unsat'] += 1
            return 'unsat', None
        nl = self.pc_nl or b.nonlinear()
        if r == 'sat' and not nl:
            return 'sat', m
        if nl and self.nra_at_decide and self.decide_unknown_here < 3:
            r2, m2 = self._nra_check([b.z(False)], timeout_ms=min(self.qtimeout, self.decide_nra_ms), ladder=False)
            if r2 == 'unsat':
                return 'unsat', None
            if r2 == 'unknown':
                self.stats['decide_unknown'] += 1
                self.decide_unknown_here += 1      # after 3 inconclusive attempts on this path stop asking (explore both sides)
            return ('sat' if r2 == 'sat' else 'unknown'), (m if r == 'sat' else None)
        return ('sat' if r == 'sat' else 'unknown'), m

    # -- branching --------------------------------------------------------------------
    def tick(self, n=1):
        self.steps += n
        if self.steps > self.step_limit:
            raise StepLimit()

    def decide(self, b):
        b = _asbool(b)
        if b is True or b is False:
            return b
        return self.choose([b, bnot(b)]) == 0

    def choose(self, conds):
        """conds: mutually exclusive, jointly exhaustive booleans; returns the index taken on this path"""
        self.tick()
        conds = [_asbool(c) for c in conds]
        for i, c in enumerate(conds):
            if c is True:
                return i
        live = [i for i, c in enumerate(conds) if c is not False]
        if not live:
            raise Infeasible()
        if self.pos < len(self.prefix):
            i = self.prefix[self.pos]
            self.pos += 1
            self.trace.append(i)
            self.assume(conds[i])
            return i
        self.stats['decisions'] += 1
        feas = []
        for n, i in enumerate(live):
            if n == len(live) - 1 and not feas:
                # all others refuted: this one holds under the path condition (which is satisfiable)
                feas.append((i, None))
                break
            r, m = self.feasible(conds[i])
            if r != 'unsat':
                feas.append((i, m))
        if not feas:
            raise Infeasible()
        i, m = feas[0]
        for j, _ in feas[1:]:
            self.pending.append(self.trace + [j])
        self.prefix.append(i)
        self.pos += 1
        self.trace.append(i)
        self.model = m if len(feas) > 0 else None
        self.assume(conds[i])
        return i

    # -- obligations ------------------------------------------------------------------
    def prove(self, claim, label):
        """Decide  path-condition => claim.  Returns 'proved' | 'violated' | 'unknown'."""
        self.stats['obligations'] += 1
        claim = _asbool(claim)
        rec = dict(label=label, status=None, model=None)
        self.obl.append(rec)
        if claim is True:
            self.stats['discharged'] += 1
            self.stats['trivially'] += 1
            rec['status'] = 'proved'
            return 'proved'
        if claim is False:
            r, m = self.path_model()
            neg_nl = False
        else:
            neg = bnot(claim)
            r, m = self._lin_check(neg.z(True))
            neg_nl = self.pc_nl or neg.nonlinear()
            if r == 'unsat':
                self.stats['lin_unsat'] += 1
            elif neg_nl:
                r, m = self._nra_check([neg.z(False)])
        if r == 'unsat':
            self.stats['discharged'] += 1
            rec['status'] = 'proved'
        elif r == 'sat':
            rec['status'] = 'violated'
            rec['model'] = self.witness(m)
            if claim is not False and self.nice_budget > 0:
                self.nice_budget -= 1
                nice = self.nice_witness(bnot(claim))
                if nice is not None:
                    rec['nice'] = nice
        else:
            # inconclusive over the reals: look for a counterexample on a bounded dyadic grid (cheap, and what a replay needs anyway)
            nice = None
            if self.nice_budget > 0:
                self.nice_budget -= 1
                nice = self.nice_witness(None if claim is False else bnot(claim), timeout_ms=5000)
            if nice is not None:
                rec['status'] = 'violated'
                rec['model'] = nice
            else:
                self.stats['unknown'] += 1
                rec['status'] = 'unknown'
                if self.hints and all(k in self.hints for k in self.inputs if not k.startswith('tie!')):
                    # undecided: let the replay on the real package look at the nominal values of the slice (it can only confirm, never excuse)
                    rec['probe'] = {k: str(v) for k, v in self.hints.items() if k in self.inputs}
        return rec['status']

    def path_model(self, timeout_ms=None):
        """(status, model) of the exact path condition"""
        if not self.pc_nl:
            return self._lin_check(z3.BoolVal(True))
        return self._nra_check([], timeout_ms=timeout_ms, ladder=timeout_ms is None)

    def witness(self, m):
        out = {}
        for name in self.inputs:
            v = m.eval(z3.Int(name) if name in self.int_inputs else z3.Real(name), model_completion=True)
            out[name] = _val_str(v)
        return out

    def nice_witness(self, neg, denom=8, bound=64, timeout_ms=3000):
        """try to find a model in which every input is a multiple of 1/denom with |k| <= bound*denom"""
        if not self.inputs:
            return None
        t = time.time()
        s = z3.Solver()
        s.set('timeout', timeout_ms)
        for a in self.pc:
            s.add(a)
        if neg is not None:
            s.add(neg.z(False))
        for name in self.inputs:
            if name in self.int_inputs:
                continue
            k = z3.Int('k!' + name)
            s.add(z3.Real(name) * denom == z3.ToReal(k), k <= bound * denom, k >= -bound * denom)
        r = s.check()
        self.stats['queries'] += 1
        self.stats['solver_s'] += time.time() - t
        if r == z3.sat:
            return self.witness(s.model())
        return None

    def count(self, name, n=1):
        self.counters[name] = self.counters.get(name, 0) + n
        return self.counters[name]


def _val_str(v):
    """decimal/rational string of a z3 model value"""
    if z3.is_int_value(v):
        return '%d/1' % v.as_long()
    if z3.is_rational_value(v):
        return '%d/%d' % (v.numerator_as_long(), v.denominator_as_long())
    if z3.is_algebraic_value(v):
        a = v.approx(30)
        return '%d/%d' % (a.numerator_as_long(), a.denominator_as_long())
    try:
        return str(Fr(str(v)))
    except Exception:
        return str(v)


def val_to_fr(s):
    return Fr(s)


# ----------------------------------------------------------------------------- exploration


class _Alarm:
    def __init__(self, seconds):
        self.seconds = seconds

    def __enter__(self):
        def h(sig, frm):
            raise PathTimeout()
        self.old = signal.signal(signal.SIGALRM, h)
        signal.setitimer(signal.ITIMER_REAL, self.seconds)

    def __exit__(self, *a):
        signal.setitimer(signal.ITIMER_REAL, 0)
        signal.signal(signal.SIGALRM, self.old)


def explore(fn, c, max_paths=200000, wall_s=None):
    """Run fn(c) under every feasible decision sequence.  Returns a list of path records:
       dict(outcome='ok'|'exc'|'steplimit'|'timeout'|'domain'|'notenc', trace, result, exc, obligations, witness)"""
    global CTX
    CTX = c
    work = [[]]
    out = []
    t0 = time.time()
    truncated = False
    while work:
        if len(out) >= max_paths or (wall_s and time.time() - t0 > wall_s):
            truncated = True
            break
        prefix = work.pop()
        c.begin(prefix)
        rec = dict(outcome='ok', result=None, exc=None)
        solver0 = c.stats['solver_s']
        try:
            with _Alarm(c.path_wall_s):
                rec['result'] = fn(c)
        except Infeasible:
            c.stats['infeasible'] += 1
            work.extend(c.pending)
            continue
        except StepLimit:
            rec['outcome'] = 'steplimit'
        except PathTimeout:
            # a wall-clock limit hit while most of the time went into the solver says nothing about the analysed code
            rec['outcome'] = 'timeout' if (c.stats['solver_s'] - solver0) < 0.5 * c.path_wall_s else 'solver-timeout'
        except DomainError as e:
            import traceback
            rec['outcome'] = 'domain'
            rec['exc'] = repr(e)
            rec['exc_where'] = ['%s:%d %s' % (os.path.basename(f.filename), f.lineno, f.name) for f in traceback.extract_tb(e.__traceback__)[-8:]]
        except NotEncodable as e:
            rec['outcome'] = 'notenc'
            rec['exc'] = repr(e)
        except PathAbort:
            raise
        except Exception as e:
            import traceback
            rec['outcome'] = 'exc'
            rec['exc'] = '%s: %s' % (type(e).__name__, e)
            rec['exc_type'] = type(e).__name__
            tb = traceback.extract_tb(e.__traceback__)
            rec['exc_where'] = ['%s:%d %s' % (os.path.basename(f.filename), f.lineno, f.name) for f in tb[-3:]]
        rec['trace'] = list(c.trace)
        rec['obligations'] = c.obl
        rec['counters'] = dict(c.counters)
        if rec['outcome'] != 'ok':
            # make sure the path is really feasible and get a witness for the replay
            r, m = c.path_model()
            if r == 'unsat':
                c.stats['infeasible'] += 1
                work.extend(c.pending)
                continue
            rec['feasibility'] = r
            if m is not None:
                rec['witness'] = c.witness(m)
            nice = c.nice_witness(None, timeout_ms=3000)
            if nice:
                rec['nice'] = nice
            if m is None and not nice and c.hints:
                # feasibility of the path is undecided: offer the nominal values of the slice; the replay on the real package decides
                rec['witness'] = {k: str(v) for k, v in c.hints.items() if k in c.inputs}
        c.stats['paths'] += 1
        out.append(rec)
        work.extend(c.pending)
    c.truncated = truncated
    return out

#!/bin/bash
# Build the offline interpreter overlay used by every check:
#   /verif/.venv = /venv (repo deps: numpy, numba, uts, editable kneeliverse) + z3-solver from the wheelhouse
set -e
cd "$(dirname "$0")"
V=.venv
if [ ! -x $V/bin/python ] || ! $V/bin/python -c "import z3, numpy, uts, kneeliverse" 2>/dev/null; then
  rm -rf $V
  /venv/bin/python -m venv $V
  SP=$($V/bin/python -c "import sysconfig;print(sysconfig.get_paths()['purelib'])")
  echo "import site; site.addsitedir('/venv/lib/python3.12/site-packages')" > $SP/_overlay.pth
  PIP_NO_INDEX=1 $V/bin/pip install -q --no-index --find-links /opt/veriftools/wheels z3-solver
  $V/bin/python -c "import z3, numpy, uts, kneeliverse; print('overlay ok: z3', z3.get_version_string(), 'numpy', numpy.__version__)"
fi

#!/bin/bash
# run every check of a tier on the current /repo tree, one after the other; summary on stdout
cd "$(dirname "$0")"
TIER=${1:-quick}
for i in $(seq -w 1 20); do
  id=C$i
  s=$(date +%s)
  ./check $id --tier $TIER > /tmp/verif_runall_$id.log 2>&1; rc=$?
  e=$(( $(date +%s) - s ))
  echo "$id exit=$rc ${e}s $(grep -E '^(PASS|VIOLATION|INCONCLUSIVE|UNCONFIRMED|KNOWN-FINDING|NOT-ENCODABLE|HARNESS-ERROR)' /tmp/verif_runall_$id.log | cut -c1-110 | tr '\n' ';')"
done

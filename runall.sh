#!/bin/bash
# run every check (or the listed ones) of a tier on the current /repo tree, one after the other; summary on stdout
# usage: ./runall.sh [quick|thorough] [C05 C06 ...]
cd "$(dirname "$0")"
TIER=${1:-quick}; shift
IDS=${@:-$(for i in $(seq -w 1 20); do echo C$i; done)}
for id in $IDS; do
  s=$(date +%s)
  ./check $id --tier $TIER > /tmp/verif_runall_$id.log 2>&1; rc=$?
  e=$(( $(date +%s) - s ))
  echo "$id exit=$rc ${e}s $(grep -E '^(PASS|VIOLATION|INCONCLUSIVE|UNCONFIRMED|KNOWN-FINDING|NOT-ENCODABLE|HARNESS-ERROR)' /tmp/verif_runall_$id.log | cut -c1-110 | tr '\n' ';')"
done

#!/usr/bin/env python3
"""validate MANIFEST.json and evidence/*.json against the schemas (run with python3-vt, which has jsonschema)"""
import json, glob, jsonschema, sys
ok = True
try:
    jsonschema.validate(json.load(open('/verif/MANIFEST.json')), json.load(open('/root/.vp/MANIFEST.schema.json')))
    print('MANIFEST ok')
except Exception as e:
    ok = False; print('MANIFEST INVALID', e)
es = json.load(open('/root/.vp/EVIDENCE.schema.json'))
for f in sorted(glob.glob('/verif/evidence/*.json')):
    try:
        jsonschema.validate(json.load(open(f)), es)
    except Exception as e:
        ok = False; print(f, 'INVALID', str(e)[:300])
print('evidence checked:', len(glob.glob('/verif/evidence/*.json')))
sys.exit(0 if ok else 1)

"""C04 -- threshold RDP keeps a segment only if it fits and splits only where it must (L1 stubbed kernels + L0 slices)."""
from fractions import Fraction as Fr
import itertools
from symnp import core
from symnp.core import band, bor, bnot, iff, implies
from .common import POOL, TINY, slice_points, DIP5, get_curve, random_curves
from .rdpstubs import Stubs, patched, tagged_points, well_formed, STUB_DOC

PROPERTY = 'C04'
FUNCTIONS = ['rdp.rdp', 'rdp.compute_cost_coef', 'linear_fit.linear_fit_points', 'linear_fit.linear_r2_points / rmspe_points / rmsle_points / smape_points / rpd_points',
             'linear_fit.shortest_distance_points / perpendicular_distance_points', 'metrics.*']
STUBS = STUB_DOC[:2]
BOUNDS = dict(quick='L1: n <= 6, {smape, r2} x 2 distances, symbolic t (cost and distance of every index range are free solver variables); '
                    'L0: slices through 6 pool curves, one symbolic height + symbolic t, 5 metrics x 2 distances; dispatch: n <= 4 fully symbolic',
              thorough='L1: n <= 7; L0: 12 pool curves, one or two symbolic heights')
ASSUMPTIONS = ['exact real arithmetic (T1): "beyond rounding noise" is read as exact arg-max', 't > 0 (t <= 1 for R2)', 'y >= 0 in L0',
               'the specification is relative to the library\'s own cost and distance primitives (as the statement says); the primitives are covered by C16/C17']
CONFIG = dict(quick=dict(budget_s=170, case_wall_s=150, max_paths=40000), thorough=dict(max_cases=450, budget_s=900, case_wall_s=700, max_paths=800000))
DIST = ['shortest', 'perpendicular']
MET = ['smape', 'r2', 'rmspe', 'rmsle', 'rpd']


def cases(tier, seed):
    q = tier == 'quick'
    out = []
    pool = ([0, 1, 2, 3] + TINY) if q else list(range(len(POOL)))
    for ci in pool:
        n = len(POOL[ci])
        pos_sets = [[i] for i in range(n)] if not q else [[n // 2]]
        if not q and n <= 5:
            pos_sets += [[i, j] for i, j in itertools.combinations(range(n), 2)][:3]
        for pos in pos_sets:
            for d in DIST:
                for m in MET:
                    if q and d == 'perpendicular' and m not in ('smape', 'r2'):
                        continue
                    out.append(dict(layer='L0', nra_at_decide=False, fn='rdp', curve=ci, pos=pos, distance=d, metric=m,
                                    second_metric=({'smape': 'r2', 'r2': 'rpd'}.get(m) if (len(POOL[ci]) <= 5 and d == 'shortest') else None)))
    for d in DIST:
        for m in (('smape', 'rpd') if q else MET):
            for pos in ([[3]] if q else [[1], [2], [3]]):
                out.append(dict(layer='L0', nra_at_decide=False, fn='rdp', curve='dip5', pos=pos, distance=d, metric=m, t_hint='1/5'))
    for d in DIST:
        out.append(dict(layer='L0', nra_at_decide=False, fn='rdp', curve='chord4', pos=[], distance=d, metric='smape', t_hint='1/10'))
    for m in MET:
        for n in (3, 4):
            out.append(dict(layer='L0', fn='dispatch', n=n, metric=m))
    for n in range(6 if q else 7, 1, -1):
        for d in DIST:
            for m in ('smape', 'r2'):
                out.append(dict(layer='L1', no_validate=True, fn='rdp', n=n, distance=d, metric=m))
    return out


def accept(metric, c, t):
    return (c >= t) if metric == 'r2' else (c < t)


def check_partition(h, red, n, metric, t, cost, dist):
    """(a) every retained segment with interior points is on the accepting side;
       (b) every retained interior index is explained by a rejecting range in which it is a farthest interior point"""
    ok, why = well_formed(red, [[a, b - a - 1] for a, b in zip(red, red[1:])], n)
    h.prove(ok, 'rdp returns a strictly increasing index list from 0 to n-1')
    if not ok:
        return
    for a, b in zip(red, red[1:]):
        if b - a >= 2:
            h.prove(accept(metric, cost(a, b), t), 'every retained segment with interior points has a cost on the accepting side of t')
    # (b) the output is a recursive RDP partition: every range that contains retained interior indexes is on the rejecting side and is split at a
    #     retained index that is a farthest interior point of that range (any farthest point on exact ties), recursively
    S = list(red)

    def valid(l, r):
        inner = [i for i in S if l < i < r]
        if not inner:
            return True       # acceptance of childless ranges is clause (a)
        d = dist(l, r)
        alts = []
        for i in inner:
            far = band(*[d[i - l] >= d[j] for j in range(1, r - l) if j != i - l])
            alts.append(band(far, valid(l, i), valid(i, r)))
        return band(bnot(accept(metric, cost(l, r), t)), bor(*alts))
    h.prove(valid(0, n - 1), 'the output is a recursive RDP partition: every split range is rejected and split at a farthest interior point')


def run(h, case):
    rdp, M, lf = h.L.rdp, h.L.metrics.Metrics, h.L.linear_fit
    if case['fn'] == 'dispatch':
        n, metric = case['n'], case['metric']
        X = [h.real('x%d' % i) for i in range(n)]
        nn = metric in ('rmsle', 'rmspe', 'rpd')
        Y = [h.real('y%d' % i, nn=nn) for i in range(n)]
        for i in range(n - 1):
            h.assume(X[i] < X[i + 1], 'x strictly increasing')
        if not h.sym and nn:
            h.assume(all(y >= 0 for y in Y), 'y >= 0')
        pts = h.array([[a, b] for a, b in zip(X, Y)])
        coef = lf.linear_fit_points(pts)
        got = rdp.compute_cost_coef(pts, coef, getattr(M, metric))
        b, m = coef
        yh = h.array([m * x + b for x in X]) if h.sym else h.array([float(m) * float(x) + float(b) for x in X])
        if nn and h.sym:
            h.assume(band(*[v >= 0 for v in yh.flat]), 'fitted values >= 0')
        direct = getattr(h.L.metrics, metric)(h.array(Y), yh)
        h.prove(h.eq(got, direct), 'compute_cost_coef dispatches to the metric of the end-point line')
        return None
    metric = case['metric']
    dist_enum, cost_enum = getattr(rdp.Distance, case['distance']), getattr(M, metric)
    t = h.real('t')
    h.assume(band(t > 0, t <= 1) if metric == 'r2' else t > 0, 't > 0 (t <= 1 for R2)')
    if case['layer'] == 'L1':
        n = case['n']
        pts = tagged_points(h, n)
        st = Stubs(h, n)
        with patched(h, st, requested=case.get('distance', 'shortest')):
            red = h.ints(rdp.rdp(pts, t, dist_enum, cost_enum)[0])
            check_partition(h, red, n, metric, t, lambda a, b: st.cost(a, b), lambda l, r: [st.d(l, r, i) for i in range(l, r + 1)])
        return red
    X, Y = slice_points(h, get_curve(case['curve']), case['pos'])
    if h.sym and case.get('t_hint'):
        h.c.hints['t'] = Fr(case['t_hint'])
    n = len(X)
    pts = h.argument(h.array([[a, b] for a, b in zip(X, Y)]))
    red = h.ints(rdp.rdp(pts, h.num(t), dist_enum, cost_enum)[0])
    dfn = lf.shortest_distance_points if case['distance'] == 'shortest' else lf.perpendicular_distance_points
    memo = {}

    def cost(a, b):
        if (a, b) not in memo:
            seg = pts[a:b + 1]
            memo[(a, b)] = rdp.compute_cost_coef(seg, lf.linear_fit_points(seg), cost_enum)
        return memo[(a, b)]

    def dist(l, r):
        seg = pts[l:r + 1]
        return h.vals(dfn(seg, seg[0], seg[-1]))
    check_partition(h, red, n, metric, t, cost, dist)
    if case.get('second_metric'):
        # history: the same array object simplified again under another metric (anything remembered between calls must be keyed by all arguments)
        metric2 = case['second_metric']
        cost_enum = getattr(M, metric2)
        memo.clear()
        t2 = h.real('t2')
        h.assume(band(t2 > 0, t2 <= 1) if metric2 == 'r2' else t2 > 0, 't2 > 0 (<= 1 for R2)')
        red2 = h.ints(rdp.rdp(pts, h.num(t2), dist_enum, cost_enum)[0])
        check_partition(h, red2, n, metric2, t2, cost, dist)
    h.prove(not h.writes(), 'arguments unmodified')
    return red


def repair(R, case, inputs):
    """tie witnesses: move t onto the float64 cost the real package computes for some index range"""
    import numpy as np
    if case['layer'] != 'L0' or case['fn'] != 'rdp':
        return
    curve = get_curve(case['curve'])
    pts = np.array([[float(a), float(Fr(inputs.get('y%d' % i, b)) if i in case['pos'] else b)] for i, (a, b) in enumerate(curve)], dtype=float)
    n = len(pts)
    cost = getattr(R.metrics.Metrics, case['metric'])
    seen = set()
    for l in range(n):
        for r in range(l + 2, n):
            seg = pts[l:r + 1]
            v = float(R.rdp.compute_cost_coef(seg, R.linear_fit.linear_fit_points(seg), cost))
            if v > 0 and v == v and v not in seen:
                seen.add(v)
                alt = dict(inputs)
                alt['t'] = str(Fr(v))
                yield alt


def realise(case, rnd):
    """concretiser for abstract counterexamples: threshold RDP on small random integer curves (thresholds also moved onto computed costs by repair)"""
    n = case['n']
    for curve in random_curves(n, rnd, 60):
        c2 = dict(layer='L0', fn='rdp', curve=curve, pos=[], distance=case['distance'], metric=case['metric'], realised_from=dict(n=n))
        yield c2, dict(t='1/10')


LEVEL_TEXT = ('Bounded symbolic model checking. L1: the real rdp.rdp runs over kernel stubs - the cost and the distances of every index range are free solver variables - and z3 '
              'proves on every path (a) each retained segment with interior points has a cost on the accepting side of t and (b) the retained set is a recursive RDP partition: every range containing retained indexes is '
              'rejected and split at a retained farthest interior point (any farthest point on ties), recursively; because ranges the driver never evaluated are unconstrained, accepting an un-costed '
              'segment or costing/splitting the wrong range yields a counterexample. L0: the same with the real kernels inline on pool-curve slices, plus the metric dispatch of '
              'compute_cost_coef for fully symbolic curves (n <= 4).')
LEVEL_NOTE = 'n <= 6/7 in L1 (all kernel behaviours), pool-curve slices in L0; exact reals (T1); the spec is relative to the library primitives (checked by C16/C17).'

"""C18 -- convex-hull routines return the true hull (L0)."""
from fractions import Fraction as Fr
import itertools
from symnp.core import band, bor, bnot, iff, implies
from .common import x_patterns

PROPERTY = 'C18'
FUNCTIONS = ['convex_hull._ccw', 'convex_hull._dist_points', 'convex_hull._compare_points', 'convex_hull._sort_points',
             'convex_hull.graham_scan', 'convex_hull.graham_scan_lower', 'convex_hull.graham_scan_upper']
BOUNDS = dict(quick='lower/upper chain: n <= 4 with x,y symbolic, n <= 7 with concrete x patterns and y symbolic; graham_scan: n <= 4 points with x,y symbolic '
                    '(general position and degenerate regions), n = 5 on concrete x layouts with y symbolic',
              thorough='lower/upper chain: n <= 5 with x,y symbolic, n <= 8 with concrete x patterns; graham_scan: n <= 4 (x,y symbolic), n <= 6 on concrete x layouts')
ASSUMPTIONS = ['exact real arithmetic (T1)', 'curves: x strictly increasing; point sets: pairwise distinct points']
CONFIG = dict(quick=dict(budget_s=160, case_wall_s=140, qtimeout_ms=8000), thorough=dict(budget_s=900, case_wall_s=700))

LAYOUTS = {  # concrete x layouts for graham_scan (repeated x allowed: vertical runs)
    3: [[0, 1, 2], [0, 0, 1], [1, 1, 1]],
    4: [[0, 1, 2, 3], [0, 0, 1, 1], [0, 1, 1, 2], [2, 1, 0, 1]],
    5: [[0, 1, 2, 3, 4], [0, 0, 1, 2, 2], [0, 1, 1, 1, 2], [3, 1, 0, 2, 1]],
    6: [[0, 1, 2, 3, 4, 5], [0, 0, 1, 1, 2, 2], [2, 0, 1, 3, 1, 2]],
}


def cases(tier, seed):
    out = []
    q = tier == 'quick'
    for n in range(7 if q else 8, 1, -1):
        for xs in x_patterns(n, tier, seed, quick_k=1, thorough_k=3):
            out.append(dict(fn='lower', n=n, xs=xs))
            out.append(dict(fn='upper', n=n, xs=xs))
    for n in range(4 if q else 5, 1, -1):
        out.append(dict(fn='lower', n=n, xs=None))
        out.append(dict(fn='upper', n=n, xs=None))
    for n in (3, 4):
        out.append(dict(fn='graham', n=n, xs=None, general=True))
        out.append(dict(fn='graham', n=n, xs=None, general=False))
    for n in ((3, 4, 5) if q else (3, 4, 5, 6)):
        for xs in LAYOUTS[n][:(2 if q and n == 5 else 9)]:
            out.append(dict(fn='graham', n=n, xs=xs, general=False))
    return out


def cross(a, b, c):
    """> 0: a->b->c turns counter-clockwise (c left of the directed line a->b)"""
    return (b[0] - a[0]) * (c[1] - a[1]) - (b[1] - a[1]) * (c[0] - a[0])


def dot(a, b, c):
    return (b[0] - a[0]) * (c[0] - a[0]) + (b[1] - a[1]) * (c[1] - a[1])


def run(h, case):
    n, fn = case['n'], case['fn']
    xs = case['xs']
    ch = h.L.convex_hull
    if fn in ('lower', 'upper'):
        if xs is None:
            X = [h.real('x%d' % i) for i in range(n)]
            for i in range(n - 1):
                h.assume(X[i] < X[i + 1], 'x strictly increasing')
        else:
            X = [Fr(v) for v in xs]
        Y = [h.real('y%d' % i) for i in range(n)]
        P = list(zip(X, Y))
        pts = h.argument(h.array([[a, b] for a, b in P]))
        hull = h.ints((ch.graham_scan_lower if fn == 'lower' else ch.graham_scan_upper)(pts))
        sgn = 1 if fn == 'lower' else -1
        ok = len(hull) >= 2 and hull[0] == 0 and hull[-1] == n - 1 and all(a < b for a, b in zip(hull, hull[1:]))
        h.prove(ok, 'chain runs strictly increasing from 0 to n-1')
        if ok:
            turns = [sgn * cross(P[a], P[b], P[c]) > 0 for a, b, c in zip(hull, hull[1:], hull[2:])]
            h.prove(band(*turns), 'consecutive chain edges turn strictly %s' % ('counter-clockwise' if fn == 'lower' else 'clockwise'))
            side = []
            for a, b in zip(hull, hull[1:]):
                for k in range(a + 1, b):
                    side.append(sgn * cross(P[a], P[b], P[k]) >= 0)
            h.prove(band(*side), 'every skipped point lies on or %s its spanning chain edge' % ('above' if fn == 'lower' else 'below'))
        h.prove(not h.writes(), 'arguments unmodified')
        return hull
    # ---- graham_scan on a point set
    if xs is None:
        X = [h.real('x%d' % i) for i in range(n)]
    else:
        X = [Fr(v) for v in xs]
    Y = [h.real('y%d' % i) for i in range(n)]
    P = list(zip(X, Y))
    for i, j in itertools.combinations(range(n), 2):
        h.assume(bor(P[i][0] != P[j][0], P[i][1] != P[j][1]), 'points pairwise distinct')
    if case['general']:
        for i, j, k in itertools.combinations(range(n), 3):
            h.assume(cross(P[i], P[j], P[k]) != 0, 'no three points collinear (general-position region)')
    pts = h.argument(h.array([[a, b] for a, b in P]))
    hull = h.ints(ch.graham_scan(pts))
    others = lambda *ex: [r for r in range(n) if r not in ex]
    h.prove(len(set(hull)) == len(hull) and all(0 <= i < n for i in hull), 'valid, duplicate-free indices')

    def boundary(p):
        alts = []
        for q in others(p):
            alts.append(band(*[cross(P[p], P[q], P[r]) >= 0 for r in others(p, q)]))
            alts.append(band(*[cross(P[p], P[q], P[r]) <= 0 for r in others(p, q)]))
        return bor(*alts)

    def extreme(p):
        alts = []
        for q in others(p):
            for s in (1, -1):
                cs = []
                for r in others(p, q):
                    c = cross(P[p], P[q], P[r])
                    cs.append(bor(s * c > 0, band(c == 0, dot(P[p], P[q], P[r]) > 0)))
                alts.append(band(*cs))
        return bor(*alts)

    for p in range(n):
        if p in hull:
            h.prove(boundary(p), 'returned point lies on the hull boundary')
        else:
            h.prove(bnot(extreme(p)), 'every extreme vertex is returned')
    if case['general']:
        first_ok = band(*[bor(P[hull[0]][0] < P[r][0], band(P[hull[0]][0] == P[r][0], P[hull[0]][1] < P[r][1])) for r in others(hull[0])]) if hull else False
        h.prove(first_ok, 'starts at the lowest-leftmost point')
        k = len(hull)
        cw = []
        for i in range(k):
            a, b = hull[i], hull[(i + 1) % k]
            for r in others(a, b):
                cw.append(cross(P[a], P[b], P[r]) < 0)
        h.prove(band(k >= 3, *cw), 'general position: exactly the vertex set in clockwise order')
    h.prove(not h.writes(), 'arguments unmodified')
    return hull


LEVEL_TEXT = ('Bounded symbolic model checking of the real hull routines: coordinates are solver variables (all of them for small n, the heights on concrete '
              'x layouts for larger n); Python\'s own sorted()/min() run and fork on the orientation predicate; on every path z3 proves the chain / hull '
              'characterisation written from the definition (strict turns, skipped points on the correct side; for graham_scan: returned points are boundary '
              'points, every extreme vertex is returned, and in general position the result is the clockwise vertex cycle from the lowest-leftmost point). '
              'Degenerate regions (collinear runs, fully collinear sets) are part of the symbolic space, not sampled.')
LEVEL_NOTE = 'Exact reals (T1); n <= 4/5 fully symbolic, <= 7/8 (chains) and <= 5/6 (graham_scan) on concrete x layouts; QF_NRA degree 2; z3 unsat trusted.'

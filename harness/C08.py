"""C08 -- the end-to-end pipeline yields valid, ordered knees of the original curve (compositional L0 + whole-pipeline slices)."""
from fractions import Fraction as Fr
import itertools
from symnp import core
from symnp.core import band, bor, bnot, iff, implies
from .common import x_patterns, sublists, POOL, slice_points, get_curve

PROPERTY = 'C08'
FUNCTIONS = ['postprocessing.filter_worst_knees', 'postprocessing.filter_corner_knees', 'postprocessing.filter_clusters', 'postprocessing.add_points_even', 'rdp.mapping',
             'rdp.compute_removed_points', 'clustering.*_linkage', 'knee_ranking.smooth_ranking / rank / rect_overlap', 'convex_hull.graham_scan_lower',
             'whole-pipeline slices: rdp.rdp / rdp_fixed / grdp / mp_grdp / min_point_rdp -> <detector>.multi_knee -> filters -> mapping']
BOUNDS = dict(quick='compositional: original curve n = 7, every reduction keeping m = 4..5 points, every strictly increasing knee set inside [0, m-2] with 2..3 knees, '
                    'reduced-curve heights and all thresholds symbolic, {single, average} linkage x {linear, hull, left} ranking; whole pipeline: {rdp, rdp_fixed, grdp} x 5 detectors (thorough: all 5 simplifiers) on slices of one five-point pool curve',
              thorough='compositional: n = 8, m = 4..6, 4 linkages x 4 rankings; whole pipeline: 6 pool curves, every position')
ASSUMPTIONS = ['exact real arithmetic (T1)', 'assume-guarantee: the simplifier output is any strictly increasing index set with both ends (C01) and the detector output any strictly increasing '
               'subset of [0, m-2] of the reduced curve (C02); the filters and the mapping are the real code',
               'constant sub-ranges in the Pearson ranking (nan in NumPy) are excluded as in C12', 'the bundled traces are concrete data and not a solver question (outside the claim)']
CONFIG = dict(quick=dict(budget_s=175, case_wall_s=120, max_paths=8000, nra_at_decide=False), thorough=dict(max_cases=1200, budget_s=900, case_wall_s=600, max_paths=200000, nra_at_decide=False))
SIMPL = ['rdp', 'rdp_fixed', 'grdp', 'mp_grdp', 'min_point_rdp']
DETS = ['curvature', 'dfdt', 'menger', 'lmethod', 'kneedle']


def cases(tier, seed):
    q = tier == 'quick'
    out = []
    for ci in ([0] if q else [0, 1, 2, 3, 5, 8]):
        n = len(POOL[ci])
        for pos in ([[n // 2]] if q else [[i] for i in range(n)]):
            for si, s in enumerate(SIMPL):
                for di, d in enumerate(DETS):
                    if q and ((si + di + ci) % 2 != 0 or s in ('mp_grdp', 'min_point_rdp')):
                        continue
                    out.append(dict(fn='whole', curve=ci, pos=pos, simplifier=s, detector=d, int_range=[-3, 8]))
    for d in ('lmethod', 'dfdt', 'kneedle'):      # min_point_rdp on its fixed-size fall-back (no threshold keeps min_points points)
        for pos in ([[]] if q else [[], [7]]):
            out.append(dict(fn='whole', curve='elbow9', pos=pos, simplifier='min_point_rdp', detector=d, int_range=[-3, 8]))
    n = 7 if q else 8
    xs = x_patterns(n, tier, seed, quick_k=2, thorough_k=2)[-1]
    links = ['single_linkage', 'average_linkage'] if q else ['single_linkage', 'complete_linkage', 'centroid_linkage', 'average_linkage']
    modes = ['linear', 'hull', 'left'] if q else ['left', 'linear', 'right', 'hull']
    for m in ((4, 5) if q else (4, 5, 6)):
        for inner in itertools.combinations(range(1, n - 1), m - 2):
            red = [0] + list(inner) + [n - 1]
            if q and sum(red) % 2:
                continue
            for knees in sublists(range(0, m - 1), 2, 3):
                if q and (sum(knees) + len(knees)) % 2:
                    continue
                for li, link in enumerate(links):
                    for mi, mode in enumerate(modes):
                        if q and (((li + mi + m) % 2 and not (m == 5 and mode == 'hull')) or (m == 5 and mode == 'left')):
                            continue
                        out.append(dict(fn='stages', n=n, xs=xs, reduced=red, knees=knees, linkage=link, mode=mode))
    return out


def allowed_outcome(case, rec):
    # only the undefined Pearson correlation of a constant sub-range (NumPy: nan) is excluded; a division by zero anywhere else is a finding
    return rec['outcome'] == 'domain' and any(' corrcoef' in w or ' r2' in w or ' linear_r2' in w for w in rec.get('exc_where', []))


def subseq(a, b):
    it = iter(b)
    return all(x in it for x in a)


def post_stages(h, pts, red_arr, red, removed, knees, X, Y, link, mode, tc, tk):
    """filters -> mapping on the reduced curve; returns the final original-space indices"""
    pp, kr, rdp = h.L.postprocessing, h.L.knee_ranking, h.L.rdp
    pr = pts[red_arr]
    YR = [Y[i] for i in red]
    k0 = h.iarray(knees) if not hasattr(knees, 'shape') else knees
    k0l = h.ints(k0)
    k1 = pp.filter_worst_knees(pr, k0)
    k1l = h.ints(k1)
    h.prove(subseq(k1l, k0l), 'worst-knee filter returns a subsequence of its input')
    h.prove(band(*[YR[a] >= YR[b] for a, b in zip(k1l, k1l[1:])]), 'after the worst-knee filter heights are non-increasing from left to right')
    k2 = pp.filter_corner_knees(pr, k1, h.num(tc))
    k2l = h.ints(k2)
    h.prove(subseq(k2l, k1l), 'corner filter returns a subsequence of its input')
    if len(k2l) >= 1 and all(1 <= k for k in k2l) or mode != 'hull':
        k3 = pp.filter_clusters(pr, k2, link, h.num(tk), getattr(kr.ClusterRanking, mode)) if len(k2l) else k2
    else:
        k3 = k2      # hull ranking needs interior knees (it reads x[a-1], x[b+1])
    k3l = h.ints(k3)
    h.prove(subseq(k3l, k2l), 'cluster filter returns a subsequence of its input')
    h.prove(band(*[YR[a] >= YR[b] for a, b in zip(k3l, k3l[1:])]), 'heights stay non-increasing after the cluster filter')
    final = h.ints(rdp.mapping(k3, red_arr, removed)) if len(k3l) else []
    h.prove(all(a < b for a, b in zip(final, final[1:])), 'final indices strictly increasing')
    h.prove(final == [red[k] for k in k3l], 'each final index is the retained simplification point of the corresponding reduced-space knee')
    h.prove(band(*[band(h.eq(pts[f][0], pr[k][0]), h.eq(pts[f][1], pr[k][1])) for f, k in zip(final, k3l)]) if len(final) == len(k3l) else False,
            'coordinates of the mapped knees equal those of the reduced-space knees')
    return final


def run(h, case):
    L = h.L
    tc, tk = h.real('tc'), h.real('tk')
    h.assume(band(tc >= 0, tc <= 1, tk > 0), 'corner threshold in [0,1], cluster threshold > 0')
    if case['fn'] == 'stages':
        n, xs, red, knees = case['n'], case['xs'], case['reduced'], case['knees']
        X = [Fr(v) for v in xs]
        Y = [h.real('y%d' % i) if i in red else Fr(0) for i in range(n)]
        pts = h.argument(h.array([[a, b] for a, b in zip(X, Y)]))
        ra = h.iarray(red)
        removed = L.rdp.compute_removed_points(pts, ra)
        final = post_stages(h, pts, ra, red, removed, knees, X, Y, getattr(L.clustering, case['linkage']), case['mode'], tc, tk)
        h.prove(not h.writes(), 'arguments unmodified')
        return final
    X, Y = slice_points(h, get_curve(case['curve']), case['pos'])
    n = len(X)
    pts = h.argument(h.array([[a, b] for a, b in zip(X, Y)]))
    rdp = L.rdp
    s = case['simplifier']
    if s == 'rdp':
        red_arr, removed = rdp.rdp(pts, h.num(Fr(1, 100)))
    elif s == 'rdp_fixed':
        red_arr, removed = rdp.rdp_fixed(pts, max(4, n - 1))
    elif s == 'grdp':
        red_arr, removed = rdp.grdp(pts, h.num(Fr(1, 100)))
    elif s == 'mp_grdp':
        red_arr, removed = rdp.mp_grdp(pts, h.num(Fr(1, 10)), min(5, n))
    else:
        red_arr, removed = rdp.min_point_rdp(pts, [h.num(Fr(1, 10)), h.num(Fr(1, 100))], min(5, n))
    red = h.ints(red_arr)
    h.prove(red[0] == 0 and red[-1] == n - 1 and all(a < b for a, b in zip(red, red[1:])), 'simplifier output well-formed')
    det = getattr(L, case['detector'])
    knees = det.multi_knee(pts[red_arr])
    kl = h.ints(knees)
    h.prove(all(a < b for a, b in zip(kl, kl[1:])) and all(0 <= k <= len(red) - 2 for k in kl), 'detector output strictly increasing inside the reduced curve')
    if not kl:
        return []
    final = post_stages(h, pts, red_arr, red, removed, knees, X, Y, L.clustering.single_linkage, 'linear', tc, tk)
    h.prove(not h.writes(), 'arguments unmodified')
    return final


LEVEL_TEXT = ('Bounded symbolic model checking of the pipeline stages composed as the demos compose them. Compositional layer: the outputs of the simplifier and of the detector are replaced by '
              'everything their own properties allow (C01, C02), then the real worst-knee, corner and cluster filters and the real mapping run inline with symbolic heights and thresholds; '
              'on every path z3 proves that each stage returns a subsequence, heights are non-increasing from the worst-knee filter on, final indices are strictly increasing retained '
              'points with equal coordinates, and nothing raises (hull ranking included). Whole-pipeline layer: real simplifier -> real multi_knee -> filters -> mapping on pool-curve slices.')
LEVEL_NOTE = 'n = 7/8 with 4..5/6 retained points and 2..3 knees in the compositional layer; pool-curve slices (n <= 6) for the whole pipeline; exact reals (T1); bundled traces outside the claim.'

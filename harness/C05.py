"""C05 -- fixed-size simplification is an exact-size, nested greedy refinement (L1 stubbed kernels + L0 slices)."""
from fractions import Fraction as Fr
import itertools
from symnp import core
from symnp.core import band, bor, bnot, iff, implies
from .common import POOL, TINY, slice_points, get_curve, random_curves
from .rdpstubs import Stubs, patched, tagged_points, well_formed, STUB_DOC

PROPERTY = 'C05'
FUNCTIONS = ['rdp.rdp_fixed', 'rdp._rdp_fixed', 'rdp.order_triangle', 'rdp.order_area', 'rdp.order_segment', 'rdp.compute_removed_points',
             'linear_fit.shortest_distance_points / perpendicular_distance_points / linear_fit_residuals_points (inline layer)']
STUBS = STUB_DOC[:1] + STUB_DOC[2:3]
BOUNDS = dict(quick='L1: n <= 5, 2 distances x 3 orderings, the whole chain k = 0..n+1 inside one symbolic path (all kernel behaviours); L0: slices through 5 pool curves, one symbolic height',
              thorough='L1: n <= 6; L0: 12 pool curves, one or two symbolic heights')
ASSUMPTIONS = ['exact real arithmetic (T1)', '"farther by more than rounding noise" is read as: the gained point attains the maximal interior distance, or every interior distance is below eps',
               'L1: kernels are free non-negative reals keyed by the absolute segment; y >= 0 in L0']
CONFIG = dict(quick=dict(budget_s=170, case_wall_s=150, max_paths=30000), thorough=dict(max_cases=450, budget_s=900, case_wall_s=700, max_paths=600000))
DIST = ['shortest', 'perpendicular']
ORD = ['segment', 'triangle', 'area']
EPS = Fr(1, 2 ** 52)


STACK7 = [[i + 1, y] for i, y in enumerate([4, 2, 6, 2, 1, 2, 9])]


def cases(tier, seed):
    q = tier == 'quick'
    out = []
    pool = ([0, 2, 3] + TINY) if q else list(range(len(POOL)))
    for ci in pool:
        n = len(POOL[ci])
        pos_sets = [[i] for i in range(n)] if not q else [[n // 2]]
        if not q and n <= 5:
            pos_sets += [[i, j] for i, j in itertools.combinations(range(n), 2)][:3]
        for pos in pos_sets:
            for d in DIST:
                for o in ORD:
                    if q and d == 'perpendicular' and o != 'triangle':
                        continue
                    out.append(dict(layer='L0', nra_at_decide=False, fn='chain', curve=ci, pos=pos, distance=d, order=o))
    # 7-point curve whose refinement history leaves a cheaper pending segment above a dearer one unless the work stack is fully re-sorted after
    # every split (three splittable segments pending at k = 5; seeded change C05e needs >= 7 points and k >= 6)
    for pos in ([[3]] if q else [[i] for i in range(7)]):
        for o in ORD:
            out.append(dict(layer='L0', nra_at_decide=False, fn='chain', curve=STACK7, pos=pos, distance='shortest', order=o))
    for n in range(5 if q else 6, 1, -1):
        for d in DIST:
            for o in ORD:
                out.append(dict(layer='L1', no_validate=True, fn='chain', n=n, distance=d, order=o))
    return out


def check_chain(h, pts, n, dist_enum, order_enum, D, score):
    """run the real rdp_fixed for every k and check size, nesting and the greedy rule between consecutive results"""
    rdp = h.L.rdp
    prev = None
    sig = []
    for k in range(0, n + 2):
        red, rem = rdp.rdp_fixed(pts, k, dist_enum, order_enum)
        red = h.ints(red)
        sig.append(red)
        ok, why = well_formed(red, [[int(v) for v in (row.tolist() if hasattr(row, 'tolist') else row)] for row in rem], n)
        h.prove(ok, 'rdp_fixed returns a well-formed reduction')
        h.prove(len(red) == min(max(k, 2), n), 'exactly min(max(k,2),n) indices')
        if not ok:
            return sig
        if prev is not None and k >= 3:
            h.prove(set(prev) <= set(red), 'results for k and k+1 are nested')
            gained = sorted(set(red) - set(prev))
            if len(red) == len(prev) + 1 and len(gained) == 1:
                g = gained[0]
                seg = [(a, b) for a, b in zip(prev, prev[1:]) if a < g < b]
                h.prove(len(seg) == 1, 'gained index lies strictly inside one retained segment')
                if seg:
                    a, b = seg[0]
                    d = D(a, b)                      # distances of points[a..b] to the chord a-b, library primitive
                    interior = range(1, b - a)
                    far = band(*[d[g - a] >= d[j] for j in interior])
                    noise = band(*[d[j] < EPS for j in interior])
                    h.prove(bor(far, noise), 'no interior point of that segment is farther from its chord (beyond rounding noise)')
                    sc = score(a, b)
                    others = [(c, e) for c, e in zip(prev, prev[1:]) if e - c >= 2 and (c, e) != (a, b)]
                    if others and len(prev) > 2:
                        h.prove(band(*[h.le(score(c, e), sc) for c, e in others]), 'the split segment attains the maximal ordering score among splittable segments')
        prev = red
    return sig


def run(h, case):
    rdp = h.L.rdp
    dist_enum = getattr(rdp.Distance, case['distance'])
    order_enum = getattr(rdp.Order, case['order'])
    if case['layer'] == 'L1':
        n = case['n']
        pts = tagged_points(h, n)
        st = Stubs(h, n, limit=40 * n * n + 100)
        with patched(h, st, requested=case.get('distance', 'shortest')):
            def D(a, b):
                return h.vals(st.dist(pts[a:b + 1]))

            def score(a, b):
                if case['order'] == 'segment':
                    return st.score(a, b)
                d = D(a, b)
                if case['order'] == 'area':
                    return sum(d)
                return Fr(1, 2) * (b - a) * h.np.array(d).max()      # tagged points: |P_a P_b| is the index gap
            return check_chain(h, pts, n, dist_enum, order_enum, D, score)
    X, Y = slice_points(h, get_curve(case['curve']), case['pos'])
    n = len(X)
    pts = h.argument(h.array([[a, b] for a, b in zip(X, Y)]))
    lf = h.L.linear_fit
    dfn = lf.shortest_distance_points if case['distance'] == 'shortest' else lf.perpendicular_distance_points

    def D(a, b):
        seg = pts[a:b + 1]
        return h.vals(dfn(seg, seg[0], seg[-1]))

    def score(a, b):
        seg = pts[a:b + 1]
        if case['order'] == 'segment':
            return lf.linear_fit_residuals_points(seg)
        d = D(a, b)
        if case['order'] == 'area':
            return sum(d)
        base2 = (X[b] - X[a]) ** 2 + (Y[b] - Y[a]) ** 2
        top = d[0]
        for v in d[1:]:
            top = core.smax(top, v) if h.sym else max(top, v)
        return Fr(1, 2) * (core.ssqrt(base2) if h.sym else float(base2) ** 0.5) * top
    sig = check_chain(h, pts, n, dist_enum, order_enum, D, score)
    h.prove(not h.writes(), 'arguments unmodified')
    return sig


def realise(case, rnd):
    """concretiser for abstract counterexamples: the fixed-size chain on small random integer curves"""
    n = case['n']
    for curve in random_curves(max(n, 6), rnd, 600):
        yield dict(layer='L0', fn='chain', curve=curve, pos=[], distance=case['distance'], order=case['order'], realised_from=dict(n=n)), {}


LEVEL_TEXT = ('Bounded symbolic model checking. L1: the real rdp_fixed/_rdp_fixed/order_* run over kernel stubs that are free non-negative solver variables; the '
              'whole history k = 0..n+1 is executed inside one symbolic path so that consecutive results are compared: exact size, nesting, the gained index is '
              'strictly interior to one retained segment and attains its maximal interior distance (or all are below eps), and that segment has the maximal '
              'ordering score among splittable retained segments, the scores being recomputed from their definitions (triangle = base*height/2, area = sum of distances, residual) on the same stubs, independently '
              'of the stack bookkeeping. L0: the same assertions with the real kernels inline on slices through pool curves.')
LEVEL_NOTE = 'n <= 5/6 in L1 (all kernel behaviours, all paths), pool curves (<= 6 points) and one 7-point stack-order curve with 1-2 symbolic heights in L0; exact reals (T1); abstract L1 counterexamples need an L0 slice to be reported.'

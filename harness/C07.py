"""C07 -- reduced-space indices map back to exactly the original indices (L0, QF_LIA, curve length n is an unbounded symbolic integer)."""
from fractions import Fraction as Fr
import itertools
import numpy as _np
from symnp.core import band, bor, bnot, iff, implies, smax, smin
from .common import sublists, TINY

PROPERTY = 'C07'
FUNCTIONS = ['rdp.mapping', 'rdp.compute_removed_points', 'rdp.rdp', 'rdp.rdp_fixed', 'rdp.grdp', 'rdp.mp_grdp', 'rdp.min_point_rdp']
BOUNDS = dict(quick='number of retained points k <= 6 (unwinding bound); curve length n and the retained indices are symbolic integers with NO upper bound; every ascending '
                    'position sub-list; sorted=False: every row permutation of the removed table for k <= 5',
              thorough='k <= 8; sorted=False: every row permutation for k <= 6 (120 permutations)')
BOUNDS = {k: v + '; pairs returned by the simplifiers: L1 (real drivers of rdp / grdp / mp_grdp / min_point_rdp / rdp_fixed over free kernel stubs, every kernel behaviour) n <= %s, '
                 'every min_points / length 0..n+1, symbolic thresholds; L0 exact slices of 3 small pool curves (one symbolic height, symbolic thresholds); positions: all and each single one' % ('5' if k == 'quick' else '6')
          for k, v in BOUNDS.items()}
ASSUMPTIONS = ['reduced is strictly increasing, starts at 0, ends at n-1 (the property\'s precondition)',
               'points is modelled as an array whose slices have length min(stop,n)-min(start,n) (Python slicing); its values are irrelevant to these functions',
               'NumPy argsort of distinct integer keys is the sorting permutation',
               'L1 cases: numeric kernels replaced by free solver values (see stubs); abstract counterexamples are reported only after they are realised on a concrete curve on the real package']
CONFIG = dict(quick=dict(budget_s=150, case_wall_s=120), thorough=dict(budget_s=900, case_wall_s=700))
VALIDATE_PATHS = True
from .rdpstubs import STUB_DOC
STUBS = STUB_DOC
REPORT_KEYS = ['fn', 'layer']


class SymPoints:
    """curve of symbolic length: only len() and slicing are ever used by the functions under analysis"""

    def __init__(self, n):
        self.n = n

    def __symlen__(self):
        return self.n

    def __getitem__(self, k):
        if not isinstance(k, slice) or k.step is not None:
            raise TypeError('SymPoints supports plain slices only')
        start = 0 if k.start is None else k.start
        stop = self.n if k.stop is None else k.stop
        return SymPoints(smax(0, smin(stop, self.n) - smin(start, self.n)))


def cases(tier, seed):
    q = tier == 'quick'
    out = []
    kmax = 6 if q else 8
    pmax = 5 if q else 6
    for k in range(kmax, 1, -1):
        out.append(dict(fn='sorted', k=k))
    for k in range(3, pmax + 1):
        perms = list(itertools.permutations(range(k - 1)))
        chunk = 6 if k >= 5 else len(perms)
        for i in range(0, len(perms), chunk):
            out.append(dict(fn='unsorted', k=k, perms=[list(p) for p in perms[i:i + chunk]]))
    # ---- the (reduced, removed) pairs the simplifiers themselves return: real drivers over kernel stubs (L1, see C01) and exact slices (L0)
    for n in ((5, 4) if q else (6, 5, 4, 3)):
        out.append(dict(layer='L1', no_validate=True, fn='rdp', n=n, distance='shortest', metric='smape'))
        out.append(dict(layer='L1', no_validate=True, fn='grdp', n=n, distance='shortest', metric='smape', order='segment'))
        for mp in range(0, n + 2):
            out.append(dict(layer='L1', no_validate=True, fn='mp_grdp', n=n, distance='shortest', metric='smape', order='segment', min_points=mp))
            out.append(dict(layer='L1', no_validate=True, fn='min_point_rdp', n=n, min_points=mp, nt=2))
            out.append(dict(layer='L1', no_validate=True, fn='rdp_fixed', n=n, distance='shortest', order='triangle', length=mp))
    for ci in TINY + [4]:
        out.append(dict(layer='L0', nra_at_decide=False, fn='min_point_rdp', curve=ci, pos=[1]))
        out.append(dict(layer='L0', nra_at_decide=False, fn='mp_grdp', curve=ci, pos=[1], distance='shortest', metric='smape', order='segment'))
        out.append(dict(layer='L0', nra_at_decide=False, fn='rdp_fixed', curve=ci, pos=[1], distance='shortest', order='segment'))
    return out


def check_tables(h, what, res, n):
    """C07 obligations on a pair returned by a simplifier (the well-formedness of the index list itself is C01's subject)"""
    rdp = h.L.rdp
    red, rem = res
    r = h.ints(red)
    if not (len(r) >= 2 and r[0] == 0 and r[-1] == n - 1 and all(a < b for a, b in zip(r, r[1:]))):
        return r
    rows = [[int(v) for v in (row.tolist() if hasattr(row, 'tolist') else row)] for row in rem]
    exp = rdp.compute_removed_points(h.np.zeros((n, 2)), red)
    exp = [[int(v) for v in (row.tolist() if hasattr(row, 'tolist') else row)] for row in exp]
    h.prove(rows == exp, '%s: compute_removed_points reproduces the removed table returned by the simplifier' % what)
    k = len(r)
    for I in [list(range(k))] + [[i] for i in range(k)]:
        for kw in (dict(), dict(sorted=False)):
            table = rem if not kw else rem[::-1]
            try:
                out = h.ints(rdp.mapping(h.iarray(I), red, table, **kw))
            except IndexError:
                out = None       # a table with too few rows
            h.prove(out == [r[i] for i in I], '%s: mapping(I, reduced, removed) == reduced[I] on the pair returned by the simplifier' % what)
    return r


def realise(case, rnd):
    from . import C01
    return C01.realise(case, rnd)


def run(h, case):
    if case.get('layer') in ('L0', 'L1'):
        from . import C01
        return (C01.run_L1 if case['layer'] == 'L1' else C01.run_L0)(h, case, check=check_tables)
    k = case['k']
    rdp = h.L.rdp
    n = h.integer('n', lo=2)
    if k == 2:
        r = [0, n - 1]
    else:
        r = [0] + [h.integer('r%d' % i, lo=1) for i in range(1, k - 1)] + [n - 1]
    for a, b in zip(r, r[1:]):
        h.assume(a < b, 'retained indices strictly increasing')
    if h.sym:
        points = SymPoints(n)
        reduced = h.array(r)
    else:
        if n > 200000:
            from symnp.hapi import PreconditionFailed
            raise PreconditionFailed('witness curve too long to materialise')
        points = _np.zeros((int(n), 2))
        reduced = _np.array([int(v) for v in r], dtype=_np.int64)
    removed = rdp.compute_removed_points(points, reduced)
    rows = [[removed[i][0], removed[i][1]] for i in range(len(removed))]
    h.prove(len(rows) == k - 1, 'one removed row per retained segment')
    h.prove(band(*[band(rows[i][0] == r[i], rows[i][1] == r[i + 1] - r[i] - 1) for i in range(min(len(rows), k - 1))]),
            'removed rows are [left index, number of dropped interior points]')
    h.prove(sum(row[1] for row in rows) + k == n, 'retained + dropped == n')
    if case['fn'] == 'sorted':
        for I in sublists(range(k)):
            out = rdp.mapping(h.iarray(I), reduced, removed)
            out = list(out.flat) if h.sym else [int(v) for v in out]
            h.prove(band(len(out) == len(I), *[out[j] == r[i] for j, i in enumerate(I[:len(out)])]), 'mapping(I, reduced, removed) == reduced[I]')
    else:
        for perm in case['perms']:
            shuffled = removed[h.iarray(perm)] if h.sym else removed[_np.array(perm)]
            for I in sublists(range(k)):
                out = rdp.mapping(h.iarray(I), reduced, shuffled, sorted=False)
                out = list(out.flat) if h.sym else [int(v) for v in out]
                h.prove(band(len(out) == len(I), *[out[j] == r[i] for j, i in enumerate(I[:len(out)])]),
                        'mapping(..., sorted=False) == reduced[I] for any row order of removed')
    return None


LEVEL_TEXT = ('Symbolic model checking of the real rdp.mapping and rdp.compute_removed_points in which the curve length n and all retained indices are unbounded '
              'integer solver variables (QF_LIA): only the number k of retained points is bounded (it is the loop-unwinding bound). For every k up to the bound, '
              'every ascending position list and (sorted=False) every row permutation, z3 proves the removed-table rows and mapping(I) == reduced[I] for all n. '
              'Right level: the functions depend on index structure only, so one verdict per k covers curves of every length.')
LEVEL_NOTE = 'k <= 6 quick / 8 thorough retained points; permutations for k <= 5/6; the points array is abstracted to its length (values are never read); z3 LIA unsat trusted.'

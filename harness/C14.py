"""C14 -- even-point insertion returns the documented candidates, height-filtered (L0)."""
from fractions import Fraction as Fr
import itertools
from symnp import core
from symnp.core import band, bor, bnot, iff, implies, sabs, smax, smin, sceil
from .common import x_patterns, sublists

PROPERTY = 'C14'
FUNCTIONS = ['postprocessing.add_points_even', 'postprocessing.add_points_even_knees', 'postprocessing.filter_worst_knees', 'rdp.mapping', 'rdp.compute_removed_points']
BOUNDS = dict(quick='n <= 5 points (2 concrete spacing patterns), all heights symbolic, every reduction with both ends for n <= 4 and three reductions for n = 5, knee sets {none, first, first+last, all interior positions}, '
                    'tx in [1/16, 1] and ty in (0, 1] symbolic, extremes in {False, True}',
              thorough='n <= 7, 3 spacing patterns, every knee subset of size <= 3')
ASSUMPTIONS = ['exact real arithmetic (T1)', 'non-constant y (x is strictly increasing)', 'tx >= 1/16 so that ceil(w/(2 tx)) <= 8 (the integer case split is bounded)',
               'the spec is executed on the same symbolic values (forks like ordinary code): candidate segments, ceil(w/2tx) insertions spaced by floor((right-left)/count) indices, '
               'union, unique, sort, running-minimum filter']
CONFIG = dict(quick=dict(budget_s=170, case_wall_s=120, max_paths=20000), thorough=dict(max_cases=1500, budget_s=900, case_wall_s=600, max_paths=300000))


def cases(tier, seed):
    q = tier == 'quick'
    out = []
    for n in range(5 if q else 7, 2, -1):
        for xs in x_patterns(n, tier, seed, quick_k=2, thorough_k=3):
            for inner in sublists(range(1, n - 1)):
                if q and n == 5 and inner not in ([], [2], [1, 3]):
                    continue
                red = [0] + inner + [n - 1]
                m = len(red)
                ksets = [[], [0], [0, m - 1], list(range(1, m - 1))] if q else list(sublists(range(m), 0, 3))
                seen = []
                for ks in ksets:
                    if ks in seen:
                        continue
                    seen.append(ks)
                    for ext in (False, True):
                        out.append(dict(fn='even', n=n, xs=xs, reduced=red, knees=ks, extremes=ext, int_range=[0, 8]))
            for ks in (([[1], [1, n - 2], list(range(1, n - 1))] if n < 5 else [[2], [1, 3], [1, 2, 4], [0, 3, 4]]) if q else list(sublists(range(0, n), 1, 3))):
                if not ks or sorted(set(ks)) != ks:
                    continue
                for ext in (False, True):
                    out.append(dict(fn='even_knees', n=n, xs=xs, knees=ks, extremes=ext, int_range=[0, 8]))
    # de-duplicate
    uniq, seen = [], set()
    for c in out:
        k = repr(sorted(c.items()))
        if k not in seen:
            seen.add(k)
            uniq.append(c)
    return uniq


def running_min(idx, Y):
    if len(idx) <= 1:
        return list(idx)
    out = [idx[0]]
    low = Y[idx[0]]
    for k in idx[1:]:
        if Y[k] <= low:          # forks on symbolic heights
            out.append(k)
            low = Y[k]
    return out


def spec_insertions(segs, X, Y, dx, dy, tx, ty, ceil):
    new = []
    for l, r in segs:
        w = abs(X[r] - X[l]) / dx
        hgt = (sabs(Y[r] - Y[l]) if isinstance(dy, core.S) or isinstance(Y[r], core.S) or isinstance(Y[l], core.S) else abs(Y[r] - Y[l])) / dy
        if w > 2 * tx and hgt > ty:
            cnt = ceil(w / (2 * tx))
            inc = (r - l) // cnt
            new += [l + j * inc for j in range(1, cnt + 1)]
    return new


def run(h, case):
    n, xs = case['n'], case['xs']
    X = [Fr(v) for v in xs]
    Y = [h.real('y%d' % i) for i in range(n)]
    tx, ty = h.real('tx'), h.real('ty')
    h.assume(band(tx >= Fr(1, 16), tx <= 1, ty > 0, ty <= 1), 'tx in [1/16,1], ty in (0,1]')
    h.assume(bor(*[Y[i] != Y[0] for i in range(1, n)]), 'y not constant')
    pts = h.argument(h.array([[a, b] for a, b in zip(X, Y)]))
    pp, rdp = h.L.postprocessing, h.L.rdp
    if h.sym:
        ymax, ymin = Y[0], Y[0]
        for v in Y[1:]:
            ymax, ymin = smax(ymax, v), smin(ymin, v)
        ceil = sceil
    else:
        ymax, ymin = max(Y), min(Y)
        import math
        ceil = lambda v: int(math.ceil(float(v)))
    dx, dy = X[-1] - X[0], ymax - ymin
    ext = case['extremes']
    if case['fn'] == 'even':
        red = case['reduced']
        ra = h.argument(h.iarray(red))
        removed = rdp.compute_removed_points(pts, ra)
        ka = h.argument(h.iarray(case['knees']))
        out = h.ints(pp.add_points_even(pts, ra, ka, removed, h.num(tx), h.num(ty), ext))
        segs = list(zip(red, red[1:]))
        new = spec_insertions(segs, X, Y, dx, dy, tx, ty, ceil)
        base = [red[k] for k in case['knees']]
    else:
        ks = case['knees']
        ka = h.argument(h.iarray(ks))
        out = h.ints(pp.add_points_even_knees(pts, ka, h.num(tx), h.num(ty), ext))
        marks = [0] + ks + [n - 1]
        segs = [(a, b) for a, b in zip(marks, marks[1:])]
        new = spec_insertions(segs, X, Y, dx, dy, tx, ty, ceil)
        base = list(ks)
    union = sorted(set(base + new + ([0, n - 1] if ext else [])))
    want = running_min(union, Y)
    h.prove(all(0 <= i < n for i in out), 'every returned index is valid')
    h.prove(out == want, 'result == running-minimum filter of the sorted duplicate-free union of knees, even insertions and (if requested) both end points')
    h.prove(not h.writes(), 'arguments unmodified')
    return out


LEVEL_TEXT = ('Bounded symbolic model checking of the real add_points_even / add_points_even_knees (with the real mapping, compute_removed_points and filter_worst_knees inline): '
              'heights and both thresholds are solver variables, every reduction and a family of knee sets are enumerated, ceil(w/(2 tx)) is an integer case split; the spec is '
              'run on the same symbolic values so that every feasible (implementation path x spec path) pair is compared, and index validity / absence of exceptions is checked on every path.')
LEVEL_NOTE = 'n <= 5 quick / 7 thorough, concrete spacing patterns, tx >= 1/16; exact reals (T1).'

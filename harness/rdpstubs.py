"""L1 layer for the simplifier drivers: the real control code of kneeliverse.rdp runs, the numeric kernels are
nondeterministic stubs (one free solver variable per (segment, point) / segment / breakpoint set).

Points are tagged: x_i = i (concrete), so a stub can read the absolute range of the sub-array it is given.
Keying by absolute tags over-approximates "function of the sub-array's values" (sound for proofs).
Every stub and contract used by a run is listed in the evidence (STUBS)."""
import contextlib
from fractions import Fraction as Fr
from symnp import core
from symnp.hapi import PreconditionFailed

STUB_DOC = [
    'D(l,r)[i] >= 0 (a separate family of values when the chord handed to the kernel is not first point -> last point of the sub-array) replaces the requested one of linear_fit.shortest_distance_points / perpendicular_distance_points on points[l..r], the other one gets its own free values (no other assumption: '
    'end points are NOT assumed to be at distance 0, which covers float64 rounding noise)',
    'cost(l,r) free real replaces rdp.compute_cost_coef o linear_fit.linear_fit_points',
    'score(l,r) >= 0 replaces linear_fit.linear_fit_residuals_points (Order.segment); order_triangle / order_area are real code over D',
    'G(S) free real replaces evaluation.compute_global_cost for the breakpoint set S',
]


class Stubs:
    def __init__(self, h, n, endpoints_zero=False, limit=None):
        self.h = h
        self.n = n
        self.k1 = endpoints_zero
        self.limit = limit or (6 * n + 10)
        self.calls = dict(dist=0, cost=0, score=0, G=0)

    def _tick(self, kind):
        self.calls[kind] += 1
        if self.calls[kind] > self.limit:
            raise core.StepLimit()

    @staticmethod
    def rng(pt):
        return int(pt[0][0]), int(pt[-1][0])

    def d(self, l, r, i, chord=''):
        if self.k1 and i in (l, r) and not chord:
            return Fr(0)
        return self.h.real('d%s_%d_%d_%d' % (chord, l, r, i), nn=True)

    @staticmethod
    def chord(pt, a, b):
        """'' when the chord handed to the kernel is (first point, last point) of the sub-array, otherwise a tag: distances to another chord are other values"""
        if a is None or b is None:
            return ''
        try:
            ta, tb = int(a[0]), int(b[0])
        except Exception:
            return 'q'
        return '' if (ta, tb) == Stubs.rng(pt) else 'c%d_%d' % (ta, tb)

    def dist(self, pt, a=None, b=None):
        self._tick('dist')
        l, r = self.rng(pt)
        ch = self.chord(pt, a, b)
        return self.h.np.array([self.d(l, r, i, ch) for i in range(l, r + 1)])

    def dist_other(self, pt, a=None, b=None):
        """the distance function that was NOT requested: its own free values, so that a driver using the wrong one is visible"""
        self._tick('dist')
        l, r = self.rng(pt)
        ch = self.chord(pt, a, b)
        return self.h.np.array([Fr(0) if (self.k1 and i in (l, r) and not ch) else self.h.real('dx%s_%d_%d_%d' % (ch, l, r, i), nn=True) for i in range(l, r + 1)])

    def cost(self, l, r):
        return self.h.real('c_%d_%d' % (l, r))

    def cost_coef(self, pt, coef, cost=None):
        self._tick('cost')
        l, r = self.rng(pt)
        return self.cost(l, r)

    def fit(self, pt):
        return (Fr(0), Fr(0))

    def score(self, l, r):
        return self.h.real('s_%d_%d' % (l, r), nn=True)

    def residuals(self, pt):
        self._tick('score')
        l, r = self.rng(pt)
        return self.score(l, r)

    def G(self, S):
        return self.h.real('g_' + '_'.join(str(int(v)) for v in S))

    def global_cost(self, points, reduced, cost=None, cache=None):
        self._tick('G')
        return self.G(list(reduced))


@contextlib.contextmanager
def patched(h, st, stub_global=True, stub_cost=True, stub_score=True, requested='shortest'):
    """install the stubs into the shim-loaded modules for the duration of one path"""
    if not h.sym:
        raise PreconditionFailed('the kernel-stubbed (abstract) layer has no concrete counterpart')
    L = h.L
    lf, rdp, ev = L.linear_fit, L.rdp, L.evaluation
    saved = [(lf, 'shortest_distance_points', lf.shortest_distance_points), (lf, 'perpendicular_distance_points', lf.perpendicular_distance_points),
             (lf, 'linear_fit_residuals_points', lf.linear_fit_residuals_points), (lf, 'linear_fit_points', lf.linear_fit_points),
             (rdp, 'compute_cost_coef', rdp.compute_cost_coef), (ev, 'compute_global_cost', ev.compute_global_cost)]
    try:
        lf.shortest_distance_points = st.dist if requested == 'shortest' else st.dist_other
        lf.perpendicular_distance_points = st.dist if requested == 'perpendicular' else st.dist_other
        if stub_score:
            lf.linear_fit_residuals_points = st.residuals
        if stub_cost:
            lf.linear_fit_points = st.fit
            rdp.compute_cost_coef = st.cost_coef
        if stub_global:
            ev.compute_global_cost = st.global_cost
        yield st
    finally:
        for m, k, v in saved:
            setattr(m, k, v)


def tagged_points(h, n):
    """x_i = i, y_i = 0: the drivers never look at the values except through the stubbed kernels
    (order_triangle's base length |P_l P_r| becomes the index gap, a positive constant)"""
    return h.np.array([[Fr(i), Fr(0)] for i in range(n)])


def well_formed(reduced, removed_rows, n):
    """C01 (ii)+(iii) on concrete index data"""
    ok = len(reduced) >= (2 if n >= 2 else 1) and reduced[0] == 0 and reduced[-1] == n - 1 and all(a < b for a, b in zip(reduced, reduced[1:]))
    if not ok:
        return False, 'index list not strictly increasing from 0 to n-1: %s' % (reduced,)
    exp = [[a, b - a - 1] for a, b in zip(reduced, reduced[1:])]
    got = [[int(r[0]), int(r[1])] for r in removed_rows]
    if got != exp:
        return False, 'removed table %s != %s' % (got, exp)
    if sum(r[1] for r in got) + len(reduced) != n:
        return False, 'retained + dropped != n'
    return True, ''


ACCEPT = {True: lambda c, t: c >= t, False: lambda c, t: c < t}      # keyed by "metric is R2"

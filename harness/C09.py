"""C09 -- each single-knee detector returns the interior optimum of its stated criterion; L-method refinement terminates."""
from fractions import Fraction as Fr
import itertools
from symnp import core
from symnp.core import band, bor, bnot, iff, implies, sabs, ssqrt
from symnp.hapi import PreconditionFailed
from .common import x_patterns, POOL, slice_points, LM_CYCLE, LM_CYCLE13, get_curve, random_curves

PROPERTY = 'C09'
FUNCTIONS = ['curvature.knee', 'dfdt.knee', 'dfdt.get_knee', 'dfdt.get_knee_gradient', 'menger.knee', 'menger.menger_curvature', 'lmethod.knee', 'lmethod.get_knee',
             'lmethod.compute_error', 'uts.gradient.cfd', 'uts.gradient.csd', 'uts.thresholding.isodata', 'linear_fit.linear_fit', 'linear_fit.linear_residuals',
             'numpy.polyfit (shim: closed-form least squares)']
STUBS = ['refinement-loop layer only: K(cutoff) in [2, cutoff-2] free integer replaces lmethod.get_knee on the prefix x[0:cutoff+1]']
BOUNDS = dict(quick='optimum: curvature / Menger n = 3..6, L-method n = 5..7 (fit x cost), DFDT n = 3..4, all heights symbolic, 2 concrete spacing patterns per n; '
                    'DFDT and L-method additionally on slices of 6-point pool curves; refinement loop: n <= 13, limit in {3,5,10}, 3 refinements, K(cutoff) free',
              thorough='optimum: n <= 7 (L-method 8, DFDT 6), 4 spacing patterns; refinement loop n <= 24')
ASSUMPTIONS = ['exact real arithmetic (T1)', 'x strictly increasing (concrete patterns)', 'ISODATA is executed as written (eps = 1e-6, max_iter = 100)',
               'criterion values are recomputed from the same primitive operations (cfd/csd, menger_curvature, residual sums); what is independent is the search: range, offsets, tie rule']
CONFIG = dict(quick=dict(budget_s=170, case_wall_s=140, qtimeout_ms=8000), thorough=dict(budget_s=900, case_wall_s=700, qtimeout_ms=60000))


def cases(tier, seed):
    q = tier == 'quick'
    out = []
    for n in range(6 if q else 7, 2, -1):
        for xs in x_patterns(n, tier, seed, quick_k=2, thorough_k=4, start=1):
            out.append(dict(fn='curvature', n=n, xs=xs))
            out.append(dict(fn='menger', n=n, xs=xs))
            if n <= (4 if q else 6):
                out.append(dict(fn='dfdt', n=n, xs=xs, int_range=[-3, 8]))
    for n in range(7 if q else 8, 4, -1):
        for xs in x_patterns(n, tier, seed, quick_k=2, thorough_k=3, start=1):
            for fit in ('point_fit', 'best_fit'):
                for cost in ('rmse', 'rss'):
                    out.append(dict(fn='lmethod', n=n, xs=xs, fit=fit, cost=cost))
    for ci in ([3, 1, 8, 11] if q else [3, 1, 8, 11, 9]):
        for pos in ([[2], [4]] if q else [[1], [2], [3], [4]]):
            out.append(dict(fn='dfdt_slice', curve=ci, pos=pos, int_range=[-3, 8], nra_at_decide=False))
    for it in ('original', 'adjusted'):
        for limit in (3, 10):
            out.append(dict(fn='refine_slice', pos=[11], it=it, limit=limit, step_limit=400, replay_timeout_s=10, nra_at_decide=False))
            out.append(dict(fn='refine_slice', curve13=True, pos=[12], it=it, limit=limit, step_limit=400, replay_timeout_s=10, nra_at_decide=False))
    for n in range(5, (14 if q else 25)):
        for it in ('none', 'original', 'adjusted'):
            for limit in (3, 5, 10):
                out.append(dict(layer='L1', fn='refine', n=n, it=it, limit=limit, no_validate=True))
    return out


def first_best(vals, better):
    """index of the first element that no other element beats (spec side; forks like ordinary code)"""
    best = 0
    for i in range(1, len(vals)):
        if better(vals[i], vals[best]):
            best = i
    return best


def run(h, case):
    fn = case['fn']
    L = h.L
    if fn == 'refine':
        if not h.sym:
            raise PreconditionFailed('abstract layer')
        n, lm = case['n'], L.lmethod
        calls = [0]
        saved = lm.get_knee

        def K(x, y, fit=None, cost=None):
            calls[0] += 1
            if calls[0] > 4 * n + 8:
                raise core.StepLimit()
            cutoff = len(x) - 1
            k = h.c.ivar('K_%d' % cutoff, lo=2)
            h.assume(k <= cutoff - 2, 'get_knee returns a split point in [2, len-3]')
            # the driver uses the value as an index / in arithmetic: enumerate it (bounded by the prefix length)
            for v in range(2, cutoff - 1):
                if bool(k == v):
                    return v, None, None
            raise core.Infeasible()
        lm.get_knee = K
        try:
            pts = h.np.array([[Fr(i), Fr(0)] for i in range(n)])
            k = lm.knee(pts, lm.Fit.point_fit, getattr(lm.Refinement, case['it']), case['limit'])
        finally:
            lm.get_knee = saved
        h.prove(2 <= int(k) <= n - 3, 'refinement returns an interior split point')
        return int(k)
    if fn == 'refine_slice':
        lm = L.lmethod
        X, Y = slice_points(h, get_curve(case['curve']) if case.get('curve') is not None else (LM_CYCLE13 if case.get('curve13') else LM_CYCLE), case['pos'])
        pts = h.argument(h.array([[a, b] for a, b in zip(X, Y)]))
        calls = [0]
        if h.sym:
            saved = lm.get_knee

            def counted(*a, **k):
                calls[0] += 1
                if calls[0] > 3 * len(X):
                    raise core.StepLimit()
                return saved(*a, **k)
            lm.get_knee = counted
        try:
            k = lm.knee(pts, lm.Fit.point_fit, getattr(lm.Refinement, case['it']), case['limit'])
        finally:
            if h.sym:
                lm.get_knee = saved
        h.prove(2 <= int(k) <= len(X) - 3, 'refinement terminates with an interior split point')
        return int(k)
    if fn == 'dfdt_slice':
        X, Y = slice_points(h, POOL[case['curve']], case['pos'])
    else:
        X = [Fr(v) for v in case['xs']]
        Y = [h.real('y%d' % i) for i in range(len(X))]
    n = len(X)
    pts = h.argument(h.array([[a, b] for a, b in zip(X, Y)]))
    xa, ya = h.array(X), h.array(Y)
    grad = L.uts_gradient
    if fn == 'curvature':
        k = int(L.curvature.knee(pts))
        g1, g2 = h.vals(grad.cfd(xa, ya)), h.vals(grad.csd(xa, ya))
        if h.sym:
            crit = [sabs(b) / (ssqrt(1 + a * a) ** 3) for a, b in zip(g1, g2)]
        else:
            crit = [abs(b) / (1 + a * a) ** 1.5 for a, b in zip(g1, g2)]
        h.prove(1 <= k <= n - 2, 'curvature knee is an interior index')
        if 1 <= k <= n - 2:
            h.prove(band(*[h.le(crit[j], crit[k]) for j in range(1, n - 1)]), 'curvature knee maximises |f\'\'|/(1+f\'^2)^(3/2) over interior points')
        return k
    if fn == 'menger':
        k = int(L.menger.knee(pts))
        mc = L.menger.menger_curvature
        crit = [mc(pts[i], pts[i - 1], pts[i + 1]) for i in range(1, n - 1)]
        h.prove(0 <= k <= n - 2, 'Menger knee lies in [0, n-2]')
        if k == 0:
            h.prove(band(*[h.le(c, 0) for c in crit]), 'index 0 only when no triple has positive curvature')
        elif 1 <= k <= n - 2:
            h.prove(band(*[h.le(crit[j - 1], crit[k - 1]) for j in range(1, n - 1)]), 'Menger knee maximises the Menger curvature of consecutive triples')
            h.prove(band(*[crit[j - 1] < crit[k - 1] for j in range(1, k)]), 'first maximum on ties')
        return k
    if fn in ('dfdt', 'dfdt_slice'):
        k = int(L.dfdt.knee(pts))
        g = grad.cfd(xa, ya)
        iso = L.uts_thresholding.isodata
        # spec as code: knee = cutoff = 0; repeat { knee' = argmin_{interior of tail} |g - isodata(tail)| + cutoff; cutoff = ceil(knee'/2) } while the knee moves right
        knee = cutoff = 0
        last = -1
        rounds = 0
        while last < knee and n - cutoff > 2:
            rounds += 1
            if rounds > n + 2:
                h.prove(False, 'DFDT refinement terminates')
                break
            last = knee
            tail = h.vals(g[cutoff:])
            t = iso(g[cutoff:])
            diffs = [abs(v - t) if not h.sym else sabs(v - t) for v in tail]
            knee = first_best(diffs[1:-1], lambda a, b: a < b) + 1 + cutoff
            cutoff = -((-knee) // 2)
        h.prove(k == knee, 'DFDT returns the interior point closest to the ISODATA threshold, refined on the tail while the knee moves right')
        h.prove(1 <= k <= n - 2, 'DFDT knee is an interior index')
        return k
    if fn == 'lmethod':
        lm = L.lmethod
        fit, cost = case['fit'], case['cost']
        k = int(lm.get_knee(xa, ya, getattr(lm.Fit, fit), getattr(lm.Cost, cost))[0])
        length = X[-1] - X[0]

        def rss(lo, hi):
            xs_, ys_ = X[lo:hi + 1], Y[lo:hi + 1]
            if fit == 'point_fit':
                m = (ys_[0] - ys_[-1]) / (xs_[0] - xs_[-1])
                b = ys_[0] - m * xs_[0]
            else:
                xm, ym = sum(xs_) / len(xs_), sum(ys_) / len(ys_)
                m = sum((a - xm) * (c - ym) for a, c in zip(xs_, ys_)) / sum((a - xm) ** 2 for a in xs_)
                b = ym - m * xm
            return sum((c - (m * a + b)) ** 2 for a, c in zip(xs_, ys_))

        def err(i):
            lr, rr = (X[i] - X[0]) / length, (X[-1] - X[i]) / length
            rl, rrs = rss(0, i), rss(i, n - 1)
            if cost == 'rss':
                return rl * lr + rrs * rr
            sq = ssqrt if h.sym else (lambda v: float(v) ** 0.5)
            return lr * sq(rl * lr) + rr * sq(rr * rrs)
        errs = {i: err(i) for i in range(2, n - 2)}
        h.prove(2 <= k <= n - 3, 'L-method split point lies in 2..n-3')
        if 2 <= k <= n - 3:
            h.prove(band(*[h.le(errs[k], errs[j]) for j in errs]), 'L-method minimises the length-weighted two-line fitting error')
            h.prove(band(*[errs[k] < errs[j] for j in errs if j < k]), 'first strict minimum on ties')
        if cost == 'rmse':
            k2 = int(lm.knee(pts, getattr(lm.Fit, fit), lm.Refinement.none))
            h.prove(k2 == k, 'knee(it=none) == get_knee')
        return k
    raise KeyError(fn)


def realise(case, rnd):
    """concretiser for abstract refinement cycles: lmethod.knee with the same option on small random integer curves (monotone ones included)"""
    if case.get('fn') != 'refine':
        return
    n = max(case['n'], 12)
    for curve in random_curves(n, rnd, 150):
        ys = sorted([p[1] * 7 + rnd.randint(0, 6) for p in curve], reverse=True)
        c = [[i, y] for i, y in enumerate(ys)]
        yield dict(fn='refine_slice', curve=c, pos=[], it=case['it'], limit=case['limit'], replay_timeout_s=10, layer='L0', realised_from=dict(n=case['n'])), {}


LEVEL_TEXT = ('Bounded symbolic model checking of the real curvature / DFDT / Menger / L-method detectors with all heights symbolic: on every path z3 proves that the returned index '
              'is interior and that no interior index scores strictly better under the stated criterion (first one on ties); the DFDT spec re-implements the tail-refinement '
              'loop around the real ISODATA, the L-method spec uses closed-form end-point / least-squares residuals. Termination of the L-method refinement is explored over a '
              'free single-knee oracle K(cutoff) for every curve length up to the bound, limit and refinement option, with a step budget.')
LEVEL_NOTE = ('n <= 6/7 (L-method 7/8, DFDT 4/6 plus pool slices); 2-4 spacing patterns per n; refinement loop n <= 13/24 over an oracle whose abstract cycles need a concrete curve to be '
              'reported; exact reals (T1).')

"""C19 -- knee-evaluation scores obey their accounting identities (L0).

The spec side is ordinary Python executed on the same symbolic values: its `if`s fork the path exactly like the
implementation's, so every (implementation path x spec path) combination that the solver finds feasible is compared."""
from fractions import Fraction as Fr
import itertools
from symnp.core import band, bor, bnot, iff, implies, sabs
from .common import sublists

PROPERTY = 'C19'
FUNCTIONS = ['evaluation.cm', 'evaluation.mae', 'evaluation.mse', 'evaluation.rmse', 'evaluation.rmspe', 'evaluation.accuracy',
             'evaluation.f1score', 'evaluation.mcc']
BOUNDS = dict(quick='confusion matrix: n <= 5 points, |K| <= 2 knee indices, |E| <= 3 expected points; error metrics: n <= 4, |K| <= 2, |E| <= 2; coordinates of the expected points and the tolerance symbolic, '
                    '4 strategies; accuracy/f1/mcc: confusion-matrix entries are symbolic non-negative reals (no size bound)',
              thorough='n <= 5, |K| <= 3, |E| <= 3; otherwise as quick')
ASSUMPTIONS = ['exact real arithmetic (T1)', 'tolerance t >= 0', 'mcc only where its denominator is non-zero (as in the statement)',
               'rmspe: coordinates of the iterated side are > 0 (ratios)']
CONFIG = dict(quick=dict(budget_s=160, case_wall_s=140), thorough=dict(budget_s=900, case_wall_s=700))
STRATS = ['knees', 'expected', 'best', 'worst']


def cases(tier, seed):
    q = tier == 'quick'
    out = [dict(fn='scores')]
    nmax, kmax, emax = (4, 2, 2) if q else (5, 3, 3)
    for n in range(3, 6):
        xs = [1, 2, 4, 5, 7][:n]
        for K in sublists(range(n), 1, kmax):
            for ne in range(1, 4):      # the greedy matching needs >= 3 expected points to revisit a knee (A, B, A)
                if len(K) + ne > n:
                    continue
                out.append(dict(fn='cm', n=n, xs=xs, K=K, ne=ne))
    n = 3 if q else 4
    xs = [1, 2, 4, 5][:n]
    for K in sublists(range(n), 1, kmax):
        for ne in range(1, emax + 1):
            if len(K) + ne > n + 1:
                continue
            for s in STRATS:
                out.append(dict(fn='err', n=n, xs=xs, K=K, ne=ne, strategy=s))
    for K in sublists(range(n), 1, kmax):
        out.append(dict(fn='perfect', n=n, xs=xs, K=K))
    return out


def nearest(p, B, key):
    """index of the first element of B minimising key(p, b) -- spec side, forks on comparisons"""
    best = 0
    for i in range(1, len(B)):
        if key(p, B[i]) < key(p, B[best]):
            best = i
    return best


def run(h, case):
    fn = case['fn']
    ev = h.L.evaluation
    if fn == 'scores':
        tp, fp, fn_, tn = [h.real(k, nn=True) for k in ('tp', 'fp', 'fn', 'tn')]
        if not h.sym:
            h.assume(min(tp, fp, fn_, tn) >= 0, 'entries >= 0')
        h.assume(tp + fp + fn_ + tn > 0, 'non-empty confusion matrix')
        m = h.array([[tp, fp], [fn_, tn]])
        acc = ev.accuracy(m)
        h.prove(band(h.le(0, acc), h.le(acc, 1)), 'accuracy in [0,1]')
        h.prove(implies(band(fp == 0, fn_ == 0), h.eq(acc, 1)), 'accuracy == 1 on perfect detection')
        h.assume(tp + fp + fn_ > 0, 'f1 defined (tp+fp+fn > 0)')
        f1 = ev.f1score(m)
        h.prove(band(h.le(0, f1), h.le(f1, 1)), 'f1 in [0,1]')
        h.prove(implies(band(fp == 0, fn_ == 0), h.eq(f1, 1)), 'f1 == 1 on perfect detection')
        h.assume((tp + fp) * (tp + fn_) * (tn + fp) * (tn + fn_) > 0, 'mcc denominator non-zero')
        mc = ev.mcc(m)
        h.prove(band(h.le(-1, mc), h.le(mc, 1)), 'mcc in [-1,1]')
        h.prove(implies(band(fp == 0, fn_ == 0), h.eq(mc, 1)), 'mcc == 1 on perfect detection')
        return None
    n, xs, K = case['n'], case['xs'], case['K']
    X = [Fr(v) for v in xs]
    Y = [h.real('y%d' % i) for i in range(n)]
    pts = h.argument(h.array([[a, b] for a, b in zip(X, Y)]))
    ka = h.iarray(K)
    if fn == 'perfect':
        E = h.array([[X[k], Y[k]] for k in K])
        for s in STRATS:
            st = getattr(ev.Strategy, s)
            vals = [ev.mae(pts, ka, E, st), ev.mse(pts, ka, E, st), ev.rmse(pts, ka, E, st)]
            h.prove(band(*[h.eq(v, 0) for v in vals]), 'mae/mse/rmse vanish when E is exactly the knee points')
        for k in K:
            h.assume(Y[k] > 0, 'knee heights > 0 (rmspe ratios)')
        if all(X[k] > 0 for k in K):
            h.prove(h.eq(ev.rmspe(pts, ka, E, ev.Strategy.expected), 0), 'rmspe vanishes when E is exactly the knee points')
        t = h.real('t', nn=True)
        if not h.sym:
            h.assume(t >= 0, 't >= 0')
        m = ev.cm(pts, ka, E, h.num(t))
        tp, fp, fn_, tn = [int(v) for v in (m[0][0], m[0][1], m[1][0], m[1][1])]
        h.prove(tp == len(K) and fp == 0 and fn_ == 0 and tn == n - len(K), 'confusion matrix of a perfect detection')
        h.prove(not h.writes(), 'arguments unmodified')
        return None
    ne = case['ne']
    EP = [(h.real('ex%d' % j), h.real('ey%d' % j)) for j in range(ne)]
    E = h.argument(h.array([[a, b] for a, b in EP]))
    if fn == 'cm':
        t = h.real('t', nn=True)
        if not h.sym:
            h.assume(t >= 0, 't >= 0')
        m = ev.cm(pts, ka, E, h.num(t))
        tp, fp, fn_, tn = [int(v) for v in (m[0][0], m[0][1], m[1][0], m[1][1])]
        # spec: greedy one-to-one matching, expected points in order, nearest knee in x (first minimum), within t * x-range, unclaimed
        dx = max(X) - min(X)
        used, stp = [], 0
        for (px, _) in EP:
            i = nearest(px, [X[k] for k in K], lambda p, b: sabs(b - p))
            if sabs(X[K[i]] - px) / dx <= t and i not in used:
                stp += 1
                used.append(i)
        h.prove(tp == stp, 'TP is the greedy one-to-one count')
        h.prove(tp + fn_ == ne and tp + fp == len(K) and tp + fp + fn_ + tn == n, 'TP+FN = |E|, TP+FP = |K|, entries sum to n')
        h.prove(not h.writes(), 'arguments unmodified')
        return [tp, fp, fn_, tn]
    if fn == 'err':
        s = case['strategy']
        st = getattr(ev.Strategy, s)
        KP = [(X[k], Y[k]) for k in K]
        if s == 'knees':
            A, Bs = KP, EP
        elif s == 'expected':
            A, Bs = EP, KP
        elif s == 'best':     # the shorter side is iterated (expected on ties)
            A, Bs = (EP, KP) if len(EP) <= len(KP) else (KP, EP)
        else:                 # worst: the longer side is iterated (expected on ties)
            A, Bs = (EP, KP) if len(EP) >= len(KP) else (KP, EP)
        d2 = lambda p, b: (p[0] - b[0]) ** 2 + (p[1] - b[1]) ** 2
        match = [Bs[nearest(p, Bs, d2)] for p in A]
        mae_s = sum(sabs(p[0] - b[0]) + sabs(p[1] - b[1]) for p, b in zip(A, match)) / (2 * len(A))
        mse_s = sum(d2(p, b) for p, b in zip(A, match)) / (2 * len(A))
        mae_i, mse_i, rmse_i = ev.mae(pts, ka, E, st), ev.mse(pts, ka, E, st), ev.rmse(pts, ka, E, st)
        h.prove(band(h.eq(mae_i, mae_s), h.le(0, mae_i)), 'mae == mean per-coordinate |error| of nearest-neighbour matching from the selected side')
        h.prove(band(h.eq(mse_i, mse_s), h.le(0, mse_i)), 'mse == mean per-coordinate squared error of nearest-neighbour matching')
        h.prove(band(h.le(0, rmse_i), h.eq(rmse_i * rmse_i, mse_i)), 'rmse == sqrt(mse)')
        pos = band(*[band(p[0] > 0, p[1] > 0) for p in A])
        if h.sym:
            h.assume(pos, 'iterated side has positive coordinates (rmspe ratios)')
        elif not bool(pos):
            return None
        eps = Fr(1, 10 ** 16)
        sp = sum(((p[0] - b[0]) / (p[0] + eps)) ** 2 + ((p[1] - b[1]) / (p[1] + eps)) ** 2 for p, b in zip(A, match)) / (2 * len(A))
        r = ev.rmspe(pts, ka, E, st)
        h.prove(band(h.le(0, r), h.eq(r * r, sp)), 'rmspe == root mean squared relative error of the same matching')
        h.prove(not h.writes(), 'arguments unmodified')
        return None
    raise KeyError(fn)


LEVEL_TEXT = ('Bounded symbolic model checking of the real cm / mae / mse / rmse / rmspe / accuracy / f1score / mcc: heights, expected-point coordinates and the '
              'tolerance are solver variables; the spec (greedy one-to-one matching; nearest-neighbour matching by squared distance from the strategy-selected side) '
              'is executed on the same symbolic values so that every feasible combination of implementation path and spec path is compared; the score ranges are '
              'proved for arbitrary non-negative real confusion-matrix entries (no size bound).')
LEVEL_NOTE = 'Exact reals (T1); n <= 4/5, |K|,|E| <= 2/3 for the matching part; concrete x abscissae for the curve; z3 QF_NRA for sqrt comparisons.'

"""C16 -- regression metrics and linear-fit helpers equal their mathematical definitions (L0, all entries symbolic)."""
from fractions import Fraction as Fr
from symnp.core import band, bor, bnot, iff, smin, smax, sabs, ite, implies, ssqrt, uf, div, S

PROPERTY = 'C16'
FUNCTIONS = ['metrics.r2', 'metrics.rmse', 'metrics.rmsle', 'metrics.rmspe', 'metrics.rpd', 'metrics.smape', 'metrics.residuals',
             'linear_fit.linear_fit', 'linear_fit.linear_transform', 'linear_fit.linear_r2', 'linear_fit.rmspe', 'linear_fit.rmsle',
             'linear_fit.smape', 'linear_fit.rpd', 'linear_fit.rmse', 'linear_fit.linear_residuals', 'linear_fit.linear_fit_residuals',
             'linear_fit.r2', 'linear_fit.*_points wrappers']
BOUNDS = dict(quick='vector length 1..3 (adjusted R2: 3), every entry a symbolic real (y, y_hat >= 0 for rmsle/rmspe/rpd); Pearson identity: length 3..4 with concrete x',
              thorough='vector length 1..5 (adjusted R2: 3..5), every entry a symbolic real; Pearson identity: length 3 fully symbolic, 4..6 with concrete x patterns')
ASSUMPTIONS = ['exact real arithmetic (T1): "to within rounding" is read as equality over the reals',
               'log is an uninterpreted function shared by code and spec (log 1 = 0)',
               'numba compiles the decorated Python bodies to the same value-level semantics (T3); replays run the jitted functions']
CONFIG = dict(quick=dict(budget_s=150, case_wall_s=100), thorough=dict(budget_s=900, case_wall_s=600))
EPS = Fr(1, 10 ** 16)
METRICS = ['r2', 'r2adj', 'rmse', 'rmsle', 'rmspe', 'rpd', 'smape', 'residuals']


def cases(tier, seed):
    nmax = 3 if tier == 'quick' else 5
    out = []
    for n in range(nmax, 0, -1):
        for m in METRICS:
            if m == 'r2adj' and n < 3:
                continue
            out.append(dict(fn='metric', metric=m, n=n))
            if n >= 2:
                out.append(dict(fn='wrapper', metric=m, n=n))
    out.append(dict(fn='wrapper', metric='residuals', n=1))
    for n in range(2, nmax + 1):
        out.append(dict(fn='endpoint_fit', n=n))
    for n in ([3] if tier == 'quick' else [3]):
        out.append(dict(fn='pearson', n=n, xs=None, adjusted=False))
    for n in ([3, 4] if tier == 'quick' else [3, 4, 5, 6]):
        for xs in ([list(range(n))] if tier == 'quick' else [list(range(n)), [0, 2, 3, 7, 8, 12][:n]]):
            for adj in (False, True):
                out.append(dict(fn='pearson', n=n, xs=xs, adjusted=adj))
    return out


def mean(l):
    return sum(l) / len(l)


def spec_metric(name, y, yh, log):
    n = len(y)
    if name in ('r2', 'r2adj'):
        ym = mean(y)
        rss = sum((a - b) * (a - b) for a, b in zip(y, yh))
        tss = sum((a - ym) * (a - ym) for a in y)
        return rss, tss      # handled by the caller (branch on tss == 0)
    if name == 'rmse':
        return mean([(a - b) ** 2 for a, b in zip(y, yh)])           # squared value
    if name == 'rmsle':
        return mean([(log(a + 1) - log(b + 1)) ** 2 for a, b in zip(y, yh)])
    if name == 'rmspe':
        return mean([((a - b) / (a + EPS)) ** 2 for a, b in zip(y, yh)])
    if name == 'rpd':
        return mean([sabs(a - b) / (smax(a, b) + EPS) for a, b in zip(y, yh)])
    if name == 'smape':
        return mean([2 * sabs(b - a) / (sabs(a) + sabs(b) + EPS) for a, b in zip(y, yh)])
    if name == 'residuals':
        return sum((a - b) ** 2 for a, b in zip(y, yh))
    raise KeyError(name)


def call_metric(h, name, y, yh):
    M = h.L.metrics
    ya, yha = h.array(y), h.array(yh)
    if name == 'r2':
        return M.r2(ya, yha)
    if name == 'r2adj':
        return M.r2(ya, yha, M.R2.adjusted)
    return getattr(M, name)(ya, yha)


def call_wrapper(h, name, x, y, coef):
    lf = h.L.linear_fit
    xa, ya = h.array(x), h.array(y)
    pts = h.array([[a, b] for a, b in zip(x, y)])
    if name == 'r2':
        return lf.linear_r2(xa, ya, coef), lf.linear_r2_points(pts, coef)
    if name == 'r2adj':
        return lf.linear_r2(xa, ya, coef, h.L.metrics.R2.adjusted), lf.linear_r2_points(pts, coef, h.L.metrics.R2.adjusted)
    if name == 'residuals':
        return lf.linear_residuals(xa, ya, coef), lf.linear_residuals_points(pts, coef)
    f = dict(rmse=(lf.rmse, lf.rmse_points), rmsle=(lf.rmsle, lf.rmsle_points), rmspe=(lf.rmspe, lf.rmspe_points),
             rpd=(lf.rpd, lf.rpd_points), smape=(lf.smape, lf.smape_points))[name]
    return f[0](xa, ya, coef), f[1](pts, coef)


def _log(h):
    if h.sym:
        def lg(v):
            if not isinstance(v, S) and v == 1:
                return Fr(0)
            return uf('log', v)
        return lg
    import math
    return lambda v: math.log(float(v))


def check_value(h, name, impl, y, yh, tag):
    """impl == textbook formula, plus the sign / range facts of the statement"""
    n = len(y)
    log = _log(h)
    if name in ('r2', 'r2adj'):
        rss, tss = spec_metric(name, y, yh, log)
        base = ite(tss == 0, 1 - rss, 1 - div(rss, ite(tss == 0, 1, tss))) if h.sym else (1 - rss if tss == 0 else 1 - rss / tss)
        spec = base if name == 'r2' else 1 - (1 - base) * Fr(n - 1, n - 2)
        h.prove(h.eq(impl, spec), tag + ' equals 1 - RSS/TSS (adjusted: (n-1)/(n-2) correction)')
        h.prove(h.le(impl, 1), tag + ' R2 <= 1')
        return
    spec = spec_metric(name, y, yh, log)
    if name in ('rmse', 'rmsle', 'rmspe'):
        h.prove(band(h.le(0, impl), h.eq(impl * impl, spec)), tag + ' is the non-negative root of the mean squared term')
    else:
        h.prove(h.eq(impl, spec), tag + ' equals its textbook formula')
        h.prove(h.le(0, impl), tag + ' >= 0')
    if name == 'smape':
        h.prove(h.le(impl, 2), tag + ' smape <= 2')


def run(h, case):
    fn = case['fn']
    n = case['n']
    sig = []
    if fn == 'metric':
        name = case['metric']
        nn = name in ('rmsle', 'rmspe', 'rpd')
        y = [h.real('y%d' % i, nn=nn) for i in range(n)]
        yh = [h.real('p%d' % i, nn=nn) for i in range(n)]
        if nn and not h.sym:
            h.assume(all(v >= 0 for v in y + yh), 'y, y_hat >= 0')
        impl = call_metric(h, name, y, yh)
        check_value(h, name, impl, y, yh, name)
        if name in ('rmse', 'smape', 'residuals'):
            h.prove(h.eq(call_metric(h, name, yh, y), impl), name + ' symmetric')
        same = call_metric(h, name, y, list(y))
        h.prove(h.eq(same, 1 if name in ('r2', 'r2adj') else 0), name + ' at y == y_hat')
    elif fn == 'wrapper':
        name = case['metric']
        nn = name in ('rmsle', 'rmspe', 'rpd')
        x = [h.real('x%d' % i) for i in range(n)]
        y = [h.real('y%d' % i, nn=nn) for i in range(n)]
        b, m = h.real('b'), h.real('m')
        yh = [m * xi + b for xi in x]
        if nn:
            h.assume(band(*[v >= 0 for v in yh]), 'fitted values >= 0 where ratios/logs need it')
            if not h.sym:
                h.assume(all(v >= 0 for v in y), 'y >= 0')
        w1, w2 = call_wrapper(h, name, x, y, (h.num(b), h.num(m)))
        direct = call_metric(h, name, y, yh)
        h.prove(band(h.eq(w1, direct), h.eq(w2, direct)), 'linear_fit.%s wrappers == metric(y, m*x+b)' % name)
        if name == 'residuals':
            lf = h.L.linear_fit
            x0 = [Fr(i * i + i) for i in range(n)]
            fr = lf.linear_fit_residuals(h.array(x0), h.array(y))
            bb, mm = lf.linear_fit(h.array(x0), h.array(y))
            h.prove(h.eq(fr, sum((yi - (mm * xi + bb)) ** 2 for xi, yi in zip(x0, y))), 'linear_fit_residuals == residuals of the end-point line')
            # the same with every abscissa symbolic and no precondition: includes first x == last x, where the fit falls back to (0, 0)
            bs, ms = lf.linear_fit(h.array(x), h.array(y))
            want = sum((yi - (ms * xi + bs)) ** 2 for xi, yi in zip(x, y))
            fr2 = lf.linear_fit_residuals(h.array(x), h.array(y))
            fr3 = lf.linear_fit_residuals_points(h.array([[a, c] for a, c in zip(x, y)]))
            h.prove(band(h.eq(fr2, want), h.eq(fr3, want)), 'linear_fit_residuals(_points) == residuals(y, m*x+b) with (b, m) = linear_fit(x, y), any x')
    elif fn == 'endpoint_fit':
        x = [h.real('x%d' % i) for i in range(n)]
        y = [h.real('y%d' % i) for i in range(n)]
        h.assume(x[0] != x[-1], 'first x != last x (a vertical chord has no slope)')
        lf = h.L.linear_fit
        b, m = lf.linear_fit(h.array(x), h.array(y))
        b2, m2 = lf.linear_fit_points(h.array([[a, c] for a, c in zip(x, y)]))
        h.prove(band(h.eq(m * x[0] + b, y[0]), h.eq(m * x[-1] + b, y[-1])), 'end-point fit passes through first and last point')
        h.prove(band(h.eq(b, b2), h.eq(m, m2)), 'linear_fit_points == linear_fit')
        yh = lf.linear_transform(h.array(x), (b, m))
        h.prove(band(*[h.eq(v, m * xi + b) for v, xi in zip(h.vals(yh), x)]), 'linear_transform == m*x+b')
    elif fn == 'pearson':
        xs = case['xs']
        if xs is None:
            x = [h.real('x%d' % i) for i in range(n)]
            for i in range(n - 1):
                h.assume(x[i] < x[i + 1], 'x strictly increasing')
        else:
            x = [Fr(v) for v in xs]
        y = [h.real('y%d' % i) for i in range(n)]
        xm, ym = mean(x), mean(y)
        sxx = sum((a - xm) ** 2 for a in x)
        syy = sum((c - ym) ** 2 for c in y)
        sxy = sum((a - xm) * (c - ym) for a, c in zip(x, y))
        h.assume(syy > 0, 'y not constant (Pearson correlation defined)')
        lf = h.L.linear_fit
        if case['adjusted']:
            impl = lf.r2(h.array(x), h.array(y), h.L.metrics.R2.adjusted)
            spec_num, spec_den = sxy * sxy, sxx * syy
            # impl == 1 - (1 - r^2)(n-1)/(n-2)
            h.prove(h.eq((1 - (1 - impl) * Fr(n - 2, n - 1)) * spec_den, spec_num), 'adjusted best-fit R2 == corrected squared Pearson correlation')
        else:
            impl = lf.r2(h.array(x), h.array(y))
            impl2 = lf.r2_points(h.array([[a, c] for a, c in zip(x, y)]))
            h.prove(band(h.eq(impl * (sxx * syy), sxy * sxy), h.eq(impl, impl2)), 'best-fit R2 == squared Pearson correlation')
            h.prove(band(h.le(0, impl), h.le(impl, 1)), 'best-fit R2 in [0,1]')
    return sig


LEVEL_TEXT = ('Bounded symbolic model checking of the real metric bodies (the Python source numba compiles) and linear-fit wrappers: every vector entry, '
              'slope and intercept is a solver variable; z3 proves value equality with the textbook formula (incl. eps guard and the TSS = 0 branch), symmetry, '
              'non-negativity, smape <= 2, R2 <= 1, vanishing at y = y_hat, wrapper == metric(y, m*x+b), end-point interpolation and the Pearson identity. '
              'Right level: each identity is polynomial/rational of fixed shape per length, so the bound on the length is the only gap to a proof.')
LEVEL_NOTE = ('Exact reals (T1); vector length <= 3 quick / 5 thorough; log uninterpreted; numba-compiled code trusted to match the Python body (T3), '
              'replays execute the jitted functions.')

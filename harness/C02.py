"""C02 -- recursive multi-knee detection terminates, is well-formed and self-similar (L1 stubbed detector/gate + L0 slices)."""
from fractions import Fraction as Fr
import itertools
from symnp import core
from symnp.core import band, bor, bnot, iff, implies
from symnp.hapi import PreconditionFailed
from .common import POOL, slice_points, get_curve, random_curves

PROPERTY = 'C02'
FUNCTIONS = ['multi_knee.multi_knee', 'curvature.multi_knee', 'dfdt.multi_knee', 'menger.multi_knee', 'lmethod.multi_knee', 'kneedle.multi_knee',
             'curvature.knee', 'dfdt.knee', 'menger.knee', 'lmethod.knee', 'kneedle.knee (inline layer)', 'linear_fit.linear_fit_points / smape_points / linear_r2_points']
STUBS = ['K(l,r): free integer in the detector\'s range (1..len-2; 0..len-2 for a Menger-like detector; None allowed for a Kneedle-like detector) replaces the single-knee detector on points[l..r]',
         'gate(l,r): free real replaces linear_fit.smape_points / linear_r2_points of the end-point line on points[l..r]']
BOUNDS = dict(quick='L1: n <= 9 points, t2 in {3,4}, cost in {smape, r2}, symbolic t1 >= 0, three detector range contracts (interior / Menger-like / Kneedle-like); '
                    'L0: real detectors inline on slices of 5 pool curves (n <= 6, one exactly collinear), one symbolic height',
              thorough='L1: n <= 11; L0: 8 pool curves, every position')
ASSUMPTIONS = ['exact real arithmetic (T1)', 'L1: the detector is any function of the sub-range that respects its range contract (the contract itself is proved per detector in C09 / the inline layer)',
               'y >= 0, x strictly increasing']
CONFIG = dict(quick=dict(budget_s=170, case_wall_s=150, max_paths=60000), thorough=dict(budget_s=900, case_wall_s=700, max_paths=1000000))
DETS = ['curvature', 'dfdt', 'menger', 'lmethod', 'kneedle']
T2MIN = dict(curvature=3, dfdt=3, menger=4, lmethod=4, kneedle=3)


def cases(tier, seed):
    q = tier == 'quick'
    out = []
    for ci in ([0, 1, 2, 3, 5] if q else [0, 1, 2, 3, 4, 5, 7, 8, 11]):
        n = len(POOL[ci])
        for pos in ([[n // 2]] if q else [[i] for i in range(n)]):
            for det in DETS:
                out.append(dict(layer='L0', nra_at_decide=False, fn=det, curve=ci, pos=pos, int_range=[-3, 8]))
    for n in range(9 if q else 11, 1, -1):
        for contract in ('interior', 'menger', 'kneedle'):
            for t2 in (3, 4):
                for cost in ('smape', 'r2'):
                    if q and cost == 'r2' and contract != 'interior':
                        continue
                    out.append(dict(layer='L1', no_validate=True, fn='driver', n=n, contract=contract, t2=t2, cost=cost))
    return out


def check_wellformed(h, res, n, lo):
    ok = all(a < b for a, b in zip(res, res[1:])) and all(lo <= k <= n - 2 for k in res)
    h.prove(ok, 'strictly increasing indices inside [%d, n-2]' % lo)
    return ok


def run(h, case):
    L = h.L
    mk = L.multi_knee
    if case['layer'] == 'L1':
        if not h.sym:
            raise PreconditionFailed('abstract layer')
        n, contract, t2 = case['n'], case['contract'], case['t2']
        cost = getattr(L.metrics.Metrics, case['cost'])
        pts = h.np.array([[Fr(i), Fr(0)] for i in range(n)])
        t1 = h.real('t1', nn=True)
        lf = L.linear_fit
        calls = [0]

        def rng(pt):
            return int(pt[0][0]), int(pt[-1][0])

        def gate(pt, coef):
            l, r = rng(pt)
            return h.real('gate_%d_%d' % (l, r))

        def K(pt):
            calls[0] += 1
            if calls[0] > 6 * n + 10:
                raise core.StepLimit()
            l, r = rng(pt)
            m = r - l + 1
            lo = 0 if contract == 'menger' else 1
            if contract == 'kneedle':
                if bool(h.real('none_%d_%d' % (l, r)) > 0):
                    return None
            k = h.c.ivar('K_%d_%d' % (l, r), lo=lo)
            h.assume(k <= m - 2, 'detector range contract')
            for v in range(lo, m - 1):
                if bool(k == v):
                    return v
            raise core.Infeasible()
        saved = (lf.linear_fit_points, lf.smape_points, lf.linear_r2_points)
        lf.linear_fit_points = lambda pt: (Fr(0), Fr(0))
        lf.smape_points = gate
        lf.linear_r2_points = gate
        try:
            whole = h.ints(mk.multi_knee(K, pts, t1, t2, cost))
            lo = 0 if contract == 'menger' else 1
            if not check_wellformed(h, whole, n, lo):
                return whole
            h.prove(calls[0] <= n, 'at most n-1 detector calls (terminates)')
            g = h.real('gate_0_%d' % (n - 1))
            curved = (g < t1) if case['cost'] == 'r2' else (g >= t1)
            if n <= t2:
                h.prove(whole == [], 'empty when the curve has at most t2 points')
                return whole
            if not whole:
                # empty otherwise only if the gate says "straight" or the detector declined
                declined = (h.real('none_0_%d' % (n - 1)) > 0) if contract == 'kneedle' else False
                h.prove(bor(bnot(curved), declined), 'empty only when the end-point-line gate is below t1 (or the detector returns None)')
                return whole
            h.prove(curved, 'non-empty only when the gate is at or above t1')
            # self-similarity: k is the detector's answer on the whole curve
            k = K(pts)
            left = h.ints(mk.multi_knee(K, pts[0:k + 1], t1, t2, cost))
            right = h.ints(mk.multi_knee(K, pts[k + 1:], t1, t2, cost))
            h.prove(whole == sorted(left + [k] + [k + 1 + v for v in right]), 'result == {k} + result on points[0..k] + (k+1 + result on points[k+1..])')
            return whole
        finally:
            lf.linear_fit_points, lf.smape_points, lf.linear_r2_points = saved
    # ---- inline slices with the real detectors
    det = case['fn']
    X, Y = slice_points(h, get_curve(case['curve']), case['pos'])
    n = len(X)
    pts = h.argument(h.array([[a, b] for a, b in zip(X, Y)]))
    mod = getattr(L, det)
    t2 = T2MIN[det]
    whole = h.ints(mod.multi_knee(pts))
    lo = 0 if det == 'menger' else 1
    if not check_wellformed(h, whole, n, lo):
        return whole
    # second, with a symbolic gate threshold (exact ties gate == t1 are part of the symbolic region)
    t1 = h.real('t1', nn=True)
    if not h.sym:
        h.assume(t1 >= 0, 't1 >= 0')
    whole = h.ints(mod.multi_knee(pts, h.num(t1), t2))
    if not check_wellformed(h, whole, n, lo):
        return whole
    if n > t2:
        coef = L.linear_fit.linear_fit_points(pts)
        gate = L.linear_fit.smape_points(pts, coef)
        k = mod.knee(pts)
        if not whole:
            h.prove(bor(gate < t1, k is None), 'empty only when the end-point-line SMAPE is below t1 (or the detector returns None)')
        else:
            h.prove(gate >= t1, 'non-empty only when the gate is at or above t1')
            h.prove(k is not None, 'detector answered on the whole curve')
            if k is not None:
                k = int(k)
                left = h.ints(mod.multi_knee(pts[0:k + 1], h.num(t1), t2))
                right = h.ints(mod.multi_knee(pts[k + 1:], h.num(t1), t2))
                h.prove(whole == sorted(left + [k] + [k + 1 + v for v in right]), 'result == {k} + result on points[0..k] + (k+1 + result on points[k+1..])')
    else:
        h.prove(whole == [], 'empty when the curve has at most t2 points')
    h.prove(not h.writes(), 'arguments unmodified')
    return whole


def repair(R, case, inputs):
    """tie witnesses: move t1 onto the float64 SMAPE the real package computes for the end-point line of some sub-range (and onto 0)"""
    import numpy as np
    if case['layer'] != 'L0':
        return
    curve = get_curve(case['curve'])
    pts = np.array([[float(a), float(Fr(inputs.get('y%d' % i, b)) if i in case['pos'] else b)] for i, (a, b) in enumerate(curve)], dtype=float)
    n = len(pts)
    vals = [0.0]
    for l in range(n):
        for r in range(l + 3, n + 1):
            seg = pts[l:r]
            v = float(R.linear_fit.smape_points(seg, R.linear_fit.linear_fit_points(seg)))
            if v == v and v not in vals:
                vals.append(v)
    for v in vals[:10]:
        alt = dict(inputs)
        alt['t1'] = str(Fr(v))
        yield alt


def realise(case, rnd):
    """concretiser for abstract counterexamples: the real detectors on small random integer curves (collinear runs are frequent), t1 in {0, default}"""
    n = case['n']
    dets = ['menger'] if case['contract'] == 'menger' else (['kneedle'] if case['contract'] == 'kneedle' else ['curvature', 'dfdt', 'lmethod'])
    for curve in random_curves(max(n, 5), rnd, 40):
        for det in dets:
            c2 = dict(layer='L0', fn=det, curve=curve, pos=[], int_range=[-3, 8], realised_from=dict(n=n, contract=case['contract']))
            for t1 in ('0', '1/1000'):
                yield c2, dict(t1=t1)


LEVEL_TEXT = ('Bounded symbolic model checking. L1: the real multi_knee driver runs over a free single-knee oracle K(l,r) (any integer inside the detector\'s range contract) and a free gate '
              'value per sub-range; for every n up to the bound, t2, cost and symbolic t1 every path is explored and z3 proves termination within n detector calls, strict ordering and '
              'range, the emptiness rule, and the self-similarity law by running the real driver three times in one path (whole curve, points[0..k], points[k+1..]) on the same oracle. '
              'L0: the five real detectors inline on slices of pool curves with the same assertions end-to-end (multi_knee vs knee on the same arrays).')
LEVEL_NOTE = 'n <= 9/11 in L1 (every oracle behaviour), pool-curve slices (n <= 6, one symbolic height) in L0; exact reals (T1); Kneedle inline only with its default smoothing (exp uninterpreted).'

"""C12 -- cluster filtering keeps one best-ranked knee per cluster (L0)."""
from fractions import Fraction as Fr
import itertools
from symnp import core
from symnp.core import band, bor, bnot, iff, implies
from .common import x_patterns, sublists

PROPERTY = 'C12'
FUNCTIONS = ['postprocessing.filter_clusters', 'postprocessing.filter_clusters_corners', 'postprocessing.rank_corners_triangle', 'knee_ranking.smooth_ranking',
             'knee_ranking.rank', 'knee_ranking.distance_to_similarity', 'linear_fit.r2', 'clustering.*_linkage', 'convex_hull.graham_scan_lower',
             'linear_fit.shortest_distance_points (hull mode)']
BOUNDS = dict(quick='n <= 6 points (2 concrete spacing patterns), all heights symbolic, every interior knee subset of 2..3 knees, symbolic threshold, '
                    '4 linkages x {left, linear, right, hull} + corner variant (complete/centroid linkage with the linear mode only)',
              thorough='n <= 7, 3 spacing patterns, knee subsets of 2..4 knees, all linkage x mode combinations')
ASSUMPTIONS = ['exact real arithmetic (T1)', 'x strictly increasing, knees interior, t > 0',
               'sub-ranges entering a Pearson correlation are not constant in y (otherwise NumPy yields nan and the ranking is undefined): such paths are counted as "domain" and excluded',
               'the order NumPy gives to tied ranking scores is unspecified; it is modelled as a free choice']
CONFIG = dict(quick=dict(budget_s=175, case_wall_s=120, max_paths=8000, nra_at_decide=False), thorough=dict(max_cases=1800, budget_s=900, case_wall_s=600, max_paths=200000, nra_at_decide=False))
LINK = ['single_linkage', 'complete_linkage', 'centroid_linkage', 'average_linkage']
MODES = ['left', 'linear', 'right', 'hull', 'corners']


def cases(tier, seed):
    q = tier == 'quick'
    out = []
    for n in range(6 if q else 7, 3, -1):
        for pi, xs in enumerate(x_patterns(n, tier, seed, quick_k=2, thorough_k=3)):
            for knees in sublists(range(1, n - 1), 2, 3 if q else 4):
                for link in LINK:
                    for mode in MODES:
                        if q and link in ('complete_linkage', 'centroid_linkage') and mode != 'linear':
                            continue
                        if q and pi > 0 and mode in ('left', 'right'):
                            continue
                        out.append(dict(fn='filter', n=n, xs=xs, knees=knees, linkage=link, mode=mode))
    return out


def allowed_outcome(case, rec):
    # only the undefined Pearson correlation of a constant sub-range (NumPy: nan) is excluded; a division by zero anywhere else is a finding
    return rec['outcome'] == 'domain' and any(' corrcoef' in w or ' r2' in w or ' linear_r2' in w for w in rec.get('exc_where', []))


def run(h, case):
    n, xs, knees = case['n'], case['xs'], case['knees']
    X = [Fr(v) for v in xs]
    Y = [h.real('y%d' % i) for i in range(n)]
    t = h.real('t')
    h.assume(t > 0, 't > 0')
    pts = h.argument(h.array([[a, b] for a, b in zip(X, Y)]))
    ka = h.argument(h.iarray(knees))
    pp, kr, cl = h.L.postprocessing, h.L.knee_ranking, h.L.clustering
    link = getattr(cl, case['linkage'])
    mode = case['mode']
    if mode == 'corners':
        out = h.ints(pp.filter_clusters_corners(pts, ka, link, h.num(t)))
    else:
        out = h.ints(pp.filter_clusters(pts, ka, link, h.num(t), getattr(kr.ClusterRanking, mode)))
    labels = h.ints(link(pts[ka], h.num(t)))
    clusters = {}
    for k, lab in zip(knees, labels):
        clusters.setdefault(lab, []).append(k)
    h.prove(all(a < b for a, b in zip(out, out[1:])) and all(k in knees for k in out), 'strictly increasing subset of the knees')
    per = {lab: [k for k in out if k in mem] for lab, mem in clusters.items()}
    if mode == 'hull':
        h.prove(all(len(v) <= 1 for v in per.values()), 'hull mode: at most one member per cluster')
        hull = h.ints(h.L.convex_hull.graham_scan_lower(pts))
        for lab, mem in clusters.items():
            a, b = mem[0], mem[-1]
            if not any(a <= v <= b for v in hull):
                h.prove(per[lab] == [], 'hull mode: no member from a cluster whose index span contains no lower-hull point')
    else:
        h.prove(all(len(v) == 1 for v in per.values()), 'exactly one member of every cluster')
        for lab, mem in clusters.items():
            if len(mem) > 1 and len(per[lab]) == 1:
                kept = per[lab][0]
                if mode == 'corners':
                    sc = h.vals(pp.rank_corners_triangle(pts, h.iarray(mem)))
                    what = 'the kept knee maximises the corner-triangle score'
                else:
                    sc = h.vals(kr.smooth_ranking(pts, h.iarray(mem), getattr(kr.ClusterRanking, mode)))
                    what = 'the kept knee attains the maximum ranking score (fit quality x relative height)'
                if mode != 'corners':
                    # the ranking score itself, written from the statement: segment fit quality (squared Pearson correlation of the stretch from the
                    # cluster's first knee / up to its last knee) times the height below the cluster's highest knee, normalised over the cluster
                    lf = h.L.linear_fit
                    xa, ya = pts[:, 0], pts[:, 1]
                    peak = Y[mem[0]]
                    for k in mem[1:]:
                        peak = core.smax(peak, Y[k]) if h.sym else max(peak, Y[k])
                    wts = [(core.sabs(peak - Y[k]) if h.sym else abs(peak - Y[k])) for k in mem]
                    tot = sum(wts)
                    if tot != 0:                       # spec side forks like ordinary code
                        wts = [w / tot for w in wts]
                    spec = []
                    for k, w in zip(mem, wts):
                        fl = lf.r2(xa[mem[0]:k + 1], ya[mem[0]:k + 1])
                        fr = lf.r2(xa[k:mem[-1]], ya[k:mem[-1]])
                        fit = fl if mode == 'left' else (fr if mode == 'right' else (fl + fr) / 2)
                        spec.append(fit * w)
                    ok_spec = core.band(*[h.eq(a, b) for a, b in zip(sc, spec)]) if h.sym else all(h.eq(a, b) for a, b in zip(sc, spec))
                    h.prove(ok_spec, 'ranking score == segment fit quality x relative height')
                i = mem.index(kept)
                h.prove(band(*[h.le(sc[j], sc[i]) for j in range(len(mem))]), what)
    h.prove(not h.writes(), 'arguments unmodified')
    return out


LEVEL_TEXT = ('Bounded symbolic model checking of the real filter_clusters / filter_clusters_corners with the real linkage, smooth_ranking, rank, lower-hull and distance code inline: '
              'all heights and the threshold are solver variables, every interior knee subset is enumerated; on every path z3 proves that the result is a strictly increasing subset with '
              'exactly one member per cluster (clusters recomputed by calling the real linkage) whose ranking score - recomputed by calling the real ranking function on the cluster - is '
              '>= every member\'s score; hull mode: completes, at most one per cluster, none from a cluster without a lower-hull point. The arg-max clause is discharged on the linear '
              'abstraction (scores are shared opaque terms), so the degree-4 Pearson terms never reach nlsat.')
LEVEL_NOTE = 'n <= 6/7, knee subsets of <= 3/4 interior knees; exact reals (T1); constant sub-ranges (undefined Pearson correlation) excluded; tie order of NumPy\'s unstable sort modelled as a free choice.'

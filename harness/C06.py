"""C06 -- global RDP stops at the first refinement whose global cost meets the threshold (L1 stubbed kernels + L0 slices)."""
from fractions import Fraction as Fr
import itertools
from symnp import core
from symnp.core import band, bor, bnot, iff, implies
from .common import POOL, TINY, slice_points, ZIGZAG, TIE7, BUMP6, get_curve, random_curves
from .rdpstubs import Stubs, patched, tagged_points, well_formed, STUB_DOC

PROPERTY = 'C06'
FUNCTIONS = ['rdp.grdp', 'rdp._grdp', 'rdp.mp_grdp', 'rdp.min_point_rdp', 'rdp.rdp_fixed', 'rdp._rdp_fixed', 'rdp.order_*',
             'evaluation.compute_global_cost / compute_cost / compute_partial_cost with its segment cache (inline layer)']
STUBS = STUB_DOC
BOUNDS = dict(quick='L1: n <= 5 (n = 7 with concrete tent-shaped distances and free scores / global costs), {smape, r2} x 2 distances x 3 orderings, symbolic threshold(s), min_points 0..n+1, threshold lists of length 2 (n <= 4); '
                    'L0: slices through 4 pool curves and a 7-point curve with tied ordering scores (thorough: plus a 13-point periodic zigzag) (one symbolic height, symbolic thresholds) with the real kernels and the real cache',
              thorough='L1: n <= 6, threshold lists of length <= 3; L0: 12 pool curves, all five metrics')
ASSUMPTIONS = ['exact real arithmetic (T1)', 't > 0 (t <= 1 for R2)', 'L1: distance, ordering score and global cost are free reals keyed by segment / breakpoint set']
CONFIG = dict(quick=dict(budget_s=170, case_wall_s=150, max_paths=30000), thorough=dict(max_cases=450, budget_s=900, case_wall_s=700, max_paths=600000))
SPECIAL = dict(zigzag=ZIGZAG, tie7=TIE7, bump6=BUMP6)
DIST = ['shortest', 'perpendicular']
ORD = ['segment', 'triangle', 'area']


def cases(tier, seed):
    q = tier == 'quick'
    out = []
    pool = ([0, 2] + TINY) if q else list(range(len(POOL)))
    for ci in pool:
        n = len(POOL[ci])
        pos_sets = [[i] for i in range(n)] if not q else [[n // 2]]
        for pos in pos_sets:
            for m in (['smape', 'r2'] if q else ['smape', 'r2', 'rpd', 'rmspe', 'rmsle']):
                for d in (DIST if not q else ['shortest']):
                    for o in (ORD if not q else (['segment', 'triangle'] if m == 'smape' else ['segment'])):
                        out.append(dict(layer='L0', nra_at_decide=False, fn='grdp', curve=ci, pos=pos, distance=d, order=o, metric=m))
            out.append(dict(layer='L0', nra_at_decide=False, fn='min_point_rdp', curve=ci, pos=pos, nt=2, second_curve=(len(POOL[ci]) <= 5)))
    for o in ('triangle', 'segment'):
        for pos in ([[]] if q else [[], [1], [3], [5]]):
            out.append(dict(layer='L0', nra_at_decide=False, fn='grdp', curve='tie7', pos=pos, distance='shortest', order=o, metric='smape', mps=[0, 7]))
    for o in ('segment', 'area'):
        out.append(dict(layer='L0', nra_at_decide=False, fn='grdp', curve='chord4', pos=[], distance='shortest', order=o, metric='smape', t_hint='1/10'))
    for pos in ([[]] if q else [[], [2], [3]]):
        out.append(dict(layer='L0', nra_at_decide=False, fn='grdp', curve='bump6', pos=pos, distance='shortest', order='segment', metric='smape', t_hint='3/10'))
    if not q:
        for o in ORD:
            out.append(dict(layer='L0', nra_at_decide=False, fn='grdp', curve='zigzag', pos=[6], distance='shortest', order=o, metric='smape', mps=[0, 12]))
    for n in ((7,) if q else (7, 8, 9)):
        for o in ORD:
            out.append(dict(layer='L1', no_validate=True, fn='grdp', n=n, distance='shortest', order=o, metric='smape', fixed_distances=True, mps=[0, n]))
    for n in range(5 if q else 6, 1, -1):
        for m in ('smape', 'r2'):
            for d in DIST:
                for o in ORD:
                    if q and d == 'perpendicular' and (o != 'area' or m == 'r2'):
                        continue
                    out.append(dict(layer='L1', no_validate=True, fn='grdp', n=n, distance=d, order=o, metric=m))
        for nt in ((2,) if q else (2, 3)):
            if q and n > 4:
                continue
            out.append(dict(layer='L1', no_validate=True, fn='min_point_rdp', n=n, nt=nt))
    # the short special-curve slices first: under a budget cut (loaded machine) the bulk enumeration is what gets skipped
    out.sort(key=lambda c: 0 if isinstance(c.get('curve'), str) else 1)
    return out


def accept(metric, g, t):
    return (g >= t) if metric == 'r2' else (g < t)


def chain(h, pts, n, dist_enum, order_enum):
    rdp = h.L.rdp
    S = {}
    for k in range(2, n + 1):
        S[k] = h.ints(rdp.rdp_fixed(pts, k, dist_enum, order_enum)[0])
    return S


def kstar(h, S, n, G, metric, t):
    """spec as code: the first k whose global cost is on the accepting side (forks like ordinary code); n if none"""
    for k in range(2, n + 1):
        if accept(metric, G(S[k]), t):
            return k
        if len(S[k]) < k:        # no splittable segment left
            return k
    return n


def run(h, case):
    rdp, M = h.L.rdp, h.L.metrics.Metrics
    fn = case['fn']
    if case['layer'] == 'L1':
        n = case['n']
        pts = tagged_points(h, n)
        st = Stubs(h, n, limit=60 * n * n + 200)
        if case.get('fixed_distances'):
            # concrete tent-shaped distances (split in the middle): only the ordering scores, the global costs and t stay free,
            # which keeps the path count small enough to reach three and more pending segments (ties between non-sibling segments)
            st.d = lambda l, r, i, chord='': Fr(min(i - l, r - i))
        ctxm = patched(h, st, requested=case.get('distance', 'shortest'))
        G = st.G
    else:
        X, Y = slice_points(h, get_curve(case['curve']), case['pos'])
        n = len(X)
        if h.sym and case.get('t_hint'):
            h.c.hints['t'] = Fr(case['t_hint'])
        pts = h.argument(h.array([[a, b] for a, b in zip(X, Y)]))
        import contextlib
        ctxm = contextlib.nullcontext()
        G = None
    sig = []
    with ctxm:
        if fn == 'grdp':
            metric = case['metric']
            dist_enum, order_enum, cost = getattr(rdp.Distance, case['distance']), getattr(rdp.Order, case['order']), getattr(M, metric)
            if G is None:
                G = lambda S: h.L.evaluation.compute_global_cost(pts, h.iarray(S), cost)
            t = h.real('t')
            h.assume(band(t > 0, t <= 1) if metric == 'r2' else t > 0, 't > 0 (t <= 1 for R2)')
            R = h.ints(rdp.grdp(pts, h.num(t), dist_enum, cost, order_enum)[0])
            S = chain(h, pts, n, dist_enum, order_enum) if n >= 2 else {}
            ks = kstar(h, S, n, G, metric, t) if n >= 2 else n
            h.prove(R == S.get(ks, list(range(n))), 'grdp returns the shortest member of the fixed-size sequence whose global cost is acceptable (all points if none)')
            sig.append(R)
            for mp in (case.get('mps') or range(0, n + 2)):
                Rm = h.ints(rdp.mp_grdp(pts, h.num(t), mp, dist_enum, cost, order_enum)[0])
                want = S.get(max(ks, min(mp, n)), None)
                if want is None:
                    want = S[2] if n >= 2 and max(ks, min(mp, n)) < 2 else list(range(n))
                h.prove(Rm == want, 'mp_grdp returns S_max(k*, min(m, n))')
                sig.append(Rm)
        else:
            nt = case['nt']
            if h.sym and case['layer'] == 'L0':
                for i, v in enumerate(('1/10', '1/100', '1/1000')[:nt]):
                    h.c.hints['t%d' % i] = Fr(v)
            ts = [h.real('t%d' % i) for i in range(nt)]
            for t in ts:
                h.assume(t > 0, 't > 0')
            dist_enum, order_enum, cost = rdp.Distance.shortest, rdp.Order.segment, M.smape
            if G is None:
                G = lambda S: h.L.evaluation.compute_global_cost(pts, h.iarray(S), cost)
            S = chain(h, pts, n, dist_enum, order_enum)
            for mp in ((0, 3, n) if case['layer'] == 'L0' else range(0, n + 2)):
                arg = [h.num(t) for t in ts]
                R = h.ints(rdp.min_point_rdp(pts, arg, mp)[0])
                # spec: thresholds in descending order; first one whose grdp result has >= m points; else the fixed-size result for m
                order = sorted(range(nt), key=lambda i: ts[i], reverse=True)      # forks on symbolic comparisons
                want = None
                for i in order:
                    ks = kstar(h, S, n, G, 'smape', ts[i])
                    if len(S[ks]) >= mp:
                        want = S[ks]
                        break
                if want is None:
                    want = S[min(max(mp, 2), n)]
                h.prove(R == want, 'min_point_rdp: largest threshold whose global-RDP result has >= m points, else the fixed-size result for m')
                sig.append(R)
            if case['layer'] == 'L0' and case.get('second_curve'):
                # history: another curve of the same length simplified afterwards must not see anything remembered from the first one
                Y2 = [y + 1 + i % 2 for i, y in enumerate(Y)]
                pts2 = h.array([[a, b] for a, b in zip(X, Y2)])
                G2 = lambda S_: h.L.evaluation.compute_global_cost(pts2, h.iarray(S_), cost)
                S2 = chain(h, pts2, n, dist_enum, order_enum)
                mp = 3
                R2 = h.ints(rdp.min_point_rdp(pts2, [h.num(t) for t in ts], mp)[0])
                want2 = None
                for i in sorted(range(nt), key=lambda i: ts[i], reverse=True):
                    ks = kstar(h, S2, n, G2, 'smape', ts[i])
                    if len(S2[ks]) >= mp:
                        want2 = S2[ks]
                        break
                if want2 is None:
                    want2 = S2[min(max(mp, 2), n)]
                h.prove(R2 == want2, 'min_point_rdp on a second curve does not depend on the curve simplified before it')
    if case['layer'] == 'L0':
        h.prove(not h.writes(), 'arguments unmodified')
    return sig


def repair(R, case, inputs):
    """tie witnesses: move the threshold(s) onto the float64 global costs the real package computes for the fixed-size sequence"""
    import numpy as np
    if case['layer'] != 'L0':
        return
    curve = get_curve(case['curve'])
    pts = np.array([[float(a), float(Fr(inputs.get('y%d' % i, b)) if i in case['pos'] else b)] for i, (a, b) in enumerate(curve)], dtype=float)
    n = len(pts)
    rdp, M = R.rdp, R.metrics.Metrics
    cost = getattr(M, case.get('metric', 'smape'))
    dist = getattr(rdp.Distance, case.get('distance', 'shortest'))
    order = getattr(rdp.Order, case.get('order', 'segment'))
    vals = []
    curves = [pts]
    if case.get('second_curve'):
        p2 = pts.copy()
        p2[:, 1] += 1 + (np.arange(n) % 2)
        curves.append(p2)
    for cpts in curves:
        for k in range(2, n + 1):
            S = rdp.rdp_fixed(cpts, k, dist, order)[0]
            v = float(R.evaluation.compute_global_cost(cpts, S, cost))
            vals += [v, v * 1.01, v * 0.99]
    tnames = [k for k in inputs if k.startswith('t')]
    for v in vals:
        if v > 0:
            for tn in tnames:
                alt = dict(inputs)
                alt[tn] = str(Fr(v))
                yield alt


def realise(case, rnd):
    """concretiser for abstract counterexamples: grdp / mp_grdp / min_point_rdp on small random integer curves"""
    n = case['n']
    for curve in random_curves(n, rnd, 60):
        if case['fn'] == 'grdp':
            c2 = dict(layer='L0', fn='grdp', curve=curve, pos=[], distance=case['distance'], order=case['order'], metric=case['metric'], realised_from=dict(n=n))
            for t in ('3/10', '1/10'):
                yield c2, dict(t=t)
        else:
            yield dict(layer='L0', fn='min_point_rdp', curve=curve, pos=[], nt=2, realised_from=dict(n=n)), dict(t0='1/10', t1='3/10')


LEVEL_TEXT = ('Bounded symbolic model checking. L1: the real grdp/_grdp/mp_grdp/min_point_rdp and rdp_fixed run in one symbolic path over kernel stubs (distance, ordering score '
              'and the global cost G(S) of a breakpoint set are free solver variables), and z3 proves on every path that grdp returns S_k* with k* the first k whose G is on '
              'the accepting side of t (accept written independently: < t, >= t for R2), that mp_grdp returns S_max(k*, min(m,n)) for every m, and the multi-threshold rule. '
              'L0: the same with the real kernels and the real segment cache inline on slices through pool curves, the spec evaluating compute_global_cost with fresh caches.')
LEVEL_NOTE = 'n <= 5/6 in L1 (all kernel behaviours), pool-curve slices in L0; exact reals (T1); threshold lists of length 2 (thorough 3).'

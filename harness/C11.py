"""C11 -- 1-D linkage clustering follows its stated threshold rule (L0, fully symbolic x and t)."""
from symnp.core import band, iff, sabs

PROPERTY = 'C11'
FUNCTIONS = ['clustering.single_linkage', 'clustering.complete_linkage', 'clustering.centroid_linkage',
             'clustering.average_linkage']
BOUNDS = dict(quick='n <= 7 points, x_0<...<x_{n-1} and t>0 all symbolic reals (ties included), y symbolic',
              thorough='n <= 9 points, x_0<...<x_{n-1} and t>0 all symbolic reals (ties included), y symbolic; '
                       'monotonicity in t for single/complete: two symbolic thresholds t<t2 in one path, n <= 7')
ASSUMPTIONS = ['exact real arithmetic (T1)', 'x strictly increasing, t > 0 (the property\'s precondition)']
LINKS = ['single_linkage', 'complete_linkage', 'centroid_linkage', 'average_linkage']
CONFIG = dict(quick=dict(budget_s=120), thorough=dict(budget_s=900))


def cases(tier, seed):
    nmax = 7 if tier == 'quick' else 9
    out = []
    for n in range(nmax, 1, -1):
        for link in LINKS:
            out.append(dict(fn=link, n=n, mode='rule'))
    for n in range(2, (6 if tier == 'quick' else 8)):
        for link in LINKS[:2]:
            out.append(dict(fn=link, n=n, mode='monotone'))
    return out


def spec_new_cluster(link, xs, i, start, length):
    """linkage distance of point i to the current cluster [start, i) divided by the x range"""
    if link == 'single_linkage':
        d = sabs(xs[i] - xs[i - 1])
    elif link == 'complete_linkage':
        d = sabs(xs[i] - xs[start])
    elif link == 'centroid_linkage':
        cen = sum(xs[j] for j in range(start, i)) / (i - start)
        d = sabs(xs[i] - cen)
    else:
        d = sum(sabs(xs[i] - xs[j]) for j in range(start, i)) / (i - start)
    return d / length


def run(h, case):
    n, link = case['n'], case['fn']
    xs = [h.real('x%d' % i) for i in range(n)]
    ys = [h.real('y%d' % i) for i in range(n)]
    t = h.real('t')
    for i in range(n - 1):
        h.assume(xs[i] < xs[i + 1], 'x strictly increasing')
    h.assume(t > 0, 't > 0')
    pts = h.argument(h.array([[xs[i], ys[i]] for i in range(n)]))
    f = getattr(h.L.clustering, link)
    lab = h.ints(f(pts, h.num(t)))
    h.prove(len(lab) == n and lab[0] == 0 and all(lab[i] - lab[i - 1] in (0, 1) for i in range(1, n)), 'labels contiguous from 0')
    length = xs[-1] - xs[0]
    conds = []
    start = 0
    for i in range(1, n):
        new = lab[i] != lab[i - 1]
        conds.append(iff(spec_new_cluster(link, xs, i, start, length) >= t, new))
        if new:
            start = i
    h.prove(band(*conds), 'new cluster iff linkage distance >= t')
    h.prove(not h.writes(), 'arguments unmodified')
    if case['mode'] == 'monotone':
        t2 = h.real('t2')
        h.assume(t2 > t, 't2 > t')
        lab2 = h.ints(f(pts, h.num(t2)))
        h.prove(lab2[-1] <= lab[-1], 'cluster count non-increasing in t')
        return [lab, lab2]
    return lab

LEVEL_TEXT = ('Bounded symbolic model checking of the four real linkage functions: for every n up to the bound, all x coordinates and the '
              'threshold are solver variables, every control path is explored and on each path z3 proves that labels are contiguous and that a new '
              'cluster starts exactly when the independently written linkage distance is >= t (ties are part of the symbolic region); '
              'monotonicity in t is proved with two symbolic thresholds in one path. This is the right level because the rule is a finite '
              'piecewise-linear predicate per n; only the bound on n separates it from a proof.')
LEVEL_NOTE = ('Exact real arithmetic stands in for float64 (T1); n <= 7 quick / 9 thorough; NumPy shim validated differentially (selftest); '
              'z3 unsat answers trusted.')

"""C13 -- worst-knee and corner filters implement exactly their selection rules (L0)."""
from fractions import Fraction as Fr
from symnp.core import band, bor, bnot, iff, smin, smax, sabs, ite, implies
from .common import x_patterns, sublists, make_points

PROPERTY = 'C13'
FUNCTIONS = ['postprocessing.filter_worst_knees', 'postprocessing.filter_corner_knees', 'postprocessing.select_corner_knees',
             'knee_ranking.rect', 'knee_ranking.rect_overlap']
BOUNDS = dict(quick='n <= 6 points (x concrete patterns) and n <= 4 with x symbolic (one interior knee per query); y and t symbolic; every ascending knee sub-list (<= 3 knees quick / 4 thorough for the corner filters)',
              thorough='n <= 7 points (x concrete patterns) and n <= 5 with x symbolic (one interior knee per query); y and t symbolic; every ascending knee sub-list (<= 3 knees quick / 4 thorough for the corner filters)')
ASSUMPTIONS = ['exact real arithmetic (T1)', 'x strictly increasing', 't in [0,1]']
CONFIG = dict(quick=dict(budget_s=140, case_wall_s=120), thorough=dict(max_cases=1105, budget_s=900))


def cases(tier, seed):
    out = []
    nmax = 6 if tier == 'quick' else 7
    nsym = 4 if tier == 'quick' else 5
    for n in range(nmax, 2, -1):
        for i, xs in enumerate(x_patterns(n, tier, seed, quick_k=2, thorough_k=4)):
            if i == 0:      # the worst-knee filter never looks at x
                for knees in sublists(range(n), 0, n):
                    out.append(dict(fn='worst', n=n, xs=xs, knees=knees))
            for knees in sublists(range(n), 1, min(n, 3 if tier == 'quick' else 4)):
                out.append(dict(fn='corner', n=n, xs=xs, knees=knees))
    for n in range(nsym, 2, -1):
        for knees in sublists(range(n), 1, min(n, 3)):
            if sum(1 for k in knees if 1 <= k <= n - 2) <= 1:      # one fully symbolic corner (6 reals + t) per query
                out.append(dict(fn='corner', n=n, xs=None, knees=knees))
    return out


def spec_iou(p0, p1, p2):
    """IoU of rectangle A spanned by (p0.x, p2.y)-p1 and rectangle B spanned by p0-p2 (written from the statement)"""
    def interval_overlap(a0, a1, b0, b1):
        lo_a, hi_a, lo_b, hi_b = smin(a0, a1), smax(a0, a1), smin(b0, b1), smax(b0, b1)
        span = smax(hi_a, hi_b) - smin(lo_a, lo_b)
        return smax(0, (hi_a - lo_a) + (hi_b - lo_b) - span)
    ax0, ay0, ax1, ay1 = p0[0], p2[1], p1[0], p1[1]
    bx0, by0, bx1, by1 = p0[0], p0[1], p2[0], p2[1]
    inter = interval_overlap(ax0, ax1, bx0, bx1) * interval_overlap(ay0, ay1, by0, by1)
    area_a = sabs(ax1 - ax0) * sabs(ay1 - ay0)
    area_b = sabs(bx1 - bx0) * sabs(by1 - by0)
    return inter, area_a + area_b - inter


def run(h, case):
    n = case['n']
    X, Y = make_points(h, n, case['xs'])
    pts = h.argument(h.array([[X[i], Y[i]] for i in range(n)]))
    pp = h.L.postprocessing
    sig = []
    if case['fn'] == 'worst':
        for knees in [case['knees']]:
            ka = h.iarray(knees)
            out = h.ints(pp.filter_worst_knees(pts, ka))
            sig.append(out)
            # spec: first knee, then every knee whose height is <= the lowest kept so far
            conds = []
            if knees:
                conds.append(bool(out and out[0] == knees[0]))
                low = Y[knees[0]]
                j = 1
                for k in knees[1:]:
                    kept = j < len(out) and out[j] == k
                    conds.append(iff(Y[k] <= low, kept))
                    if kept:
                        low = smin(low, Y[k])
                        j += 1
                conds.append(j == len(out))
            else:
                conds.append(out == [])
            h.prove(band(*conds), 'worst filter == greedy running minimum')
            again = h.ints(pp.filter_worst_knees(pts, h.iarray(out)))
            h.prove(again == out, 'worst filter idempotent')
    else:
        t = h.real('t')
        h.assume(band(t >= 0, t <= 1), 't in [0,1]')
        for knees in [case['knees']]:
            ka = h.iarray(knees)
            f = h.ints(pp.filter_corner_knees(pts, ka, h.num(t)))
            s = h.ints(pp.select_corner_knees(pts, ka, h.num(t)))
            sig.append([f, s])
            conds = []
            for k in knees:
                inner = 1 <= k <= n - 2
                if not inner:
                    conds.append((k in f) and (k not in s))
                    continue
                inter, union = spec_iou((X[k - 1], Y[k - 1]), (X[k], Y[k]), (X[k + 1], Y[k + 1]))
                # IoU < t  <=>  inter < t*union when union > 0; IoU := 0 when the rectangles do not overlap
                is_lt = bor(band(inter > 0, inter < t * union), band(inter <= 0, 0 < t))
                h.prove(band(iff(is_lt, k in f), iff(bnot(is_lt), k in s)), 'corner filter/selector split by IoU < t / >= t')
            conds.append(f == [k for k in knees if k in f] and s == [k for k in knees if k in s])
            conds.append(all(k in knees for k in f + s))
            h.prove(band(*conds), 'corner filter/selector keep order and ends')
            h.prove(sorted(f + s) == sorted(knees) if all(1 <= k <= n - 2 for k in knees) else set(f + s) == set(knees) and not (set(f) & set(s)),
                    'filter and selector partition the knees')
            f2 = h.ints(pp.filter_corner_knees(pts, h.iarray(f), h.num(t)))
            s2 = h.ints(pp.select_corner_knees(pts, h.iarray(s), h.num(t)))
            h.prove(f2 == f and s2 == s, 'corner filter/selector idempotent')
    h.prove(not h.writes(), 'arguments unmodified')
    return sig


LEVEL_TEXT = ('Bounded symbolic model checking of the real filter_worst_knees / filter_corner_knees / select_corner_knees: heights (and, for small n, '
              'abscissae) and the threshold are solver variables, every ascending knee sub-list is enumerated, every control path explored, and z3 proves '
              'equality with a spec written from the statement (running minimum with <=; IoU via an interval-overlap formula that differs structurally from the '
              'code), idempotence, order preservation and the partition law. Ties (equal heights, IoU == t) are inside the symbolic region.')
LEVEL_NOTE = 'Exact real arithmetic (T1); n <= 6/7 (concrete x) and <= 4/5 (symbolic x); knee sub-lists of <= 4 knees for the corner filters; shim validated by selftest.'

"""C10 -- Z-method knees are valid, height-ordered and mutually separated (L1: free z-scores; L0: slices with the real z-scores)."""
from fractions import Fraction as Fr
import itertools
from symnp import core
from symnp.core import band, bor, bnot, iff, implies, sabs, smax, smin
from symnp.hapi import PreconditionFailed

PROPERTY = 'C10'
FUNCTIONS = ['zmethod.knees', 'zmethod.getPoints', 'zmethod.map_index', 'uts.gradient.csd', 'uts.zscore.zscore_array (inline layer)']
STUBS = ['z[i] in [-7/2, 7/2] free real per point replaces uts.zscore.zscore_array(x, csd(x, y)) (over-approximates every realisable z-score vector inside that range)']
BOUNDS = dict(quick='L1: n = 4 points (x = 0..3), interior heights symbolic in [0,1] with y_0 = 1, y_3 = 0 (thorough: all four symbolic), z free in [0,7/2] (thorough: [-7/2,7/2]), (dx,dy,dz) in {(1/4,1/5,3/2), (1/2,1/2,3/2)}; '
                    'L0: the real csd / z-score code on 5 curves of 4-6 points (one with x = 0..n-1, two non-monotone) with one symbolic height',
              thorough='L1: n <= 5, dx in {1/20,1/4,1/2,1}, dy in {1/20,1/5,1/2}, dz in {1/2,1,3/2}, x_max / y_range overrides; L0: 4 curves, every position')
ASSUMPTIONS = ['exact real arithmetic (T1)', 'x strictly increasing non-negative integers, y in [0,1] (miss-ratio-like curve)',
               'dx, dy, dz range over the listed concrete values only (symbolic step sizes are outside the claim)', 'L1: |z| <= 7/2']
CONFIG = dict(quick=dict(budget_s=175, case_wall_s=150, max_paths=30000, nra_at_decide=False), thorough=dict(max_cases=500, budget_s=900, case_wall_s=700, max_paths=400000, nra_at_decide=False))

MRC = [
    [[0, '1'], [1, '0.6'], [2, '0.55'], [4, '0.3'], [5, '0.28'], [8, '0.1']],
    [[1, '0.9'], [2, '0.85'], [3, '0.4'], [5, '0.38'], [6, '0.12']],
    [[0, '1'], [2, '0.5'], [3, '0.5'], [4, '0.5'], [7, '0.2'], [9, '0']],
    [[0, '0.8'], [1, '0.8'], [2, '0.3'], [3, '0.7'], [4, '0.1']],
    [[0, '1'], [1, '0.55'], [2, '0.5'], [3, '0.2'], [4, '0.18'], [5, '0.02']],     # x = 0..n-1: x_max defaults to the point count, not the last x
    [[0, '0.3'], [1, '0.2'], [2, '0.6'], [3, '0.5']],                              # bump: low, lower, high, slightly lower (final height sweep)
]


def bands(zlo, dz):
    """[lo, hi) intervals between consecutive thresholds 3, 3-dz, ... above zlo (the top band is closed at 7/2)"""
    ts = []
    t = Fr(3)
    while t > zlo:
        ts.append(t)
        t -= dz
    edges = [Fr(7, 2)] + ts + [zlo]
    return [(edges[i + 1], edges[i]) for i in range(len(edges) - 1)]


def cases(tier, seed):
    q = tier == 'quick'
    out = []
    layouts = {4: [[0, 1, 2, 3], [0, 2, 3, 6]], 5: [[0, 1, 2, 3, 4], [1, 2, 4, 7, 8]]}
    for n in ((4,) if q else (4, 5)):
        for xs in layouts[n]:
            for dx in ((Fr(1, 4), Fr(1, 2)) if q else (Fr(1, 20), Fr(1, 4), Fr(1, 2), Fr(1))):
                for dy in ((Fr(1, 5), Fr(1, 2)) if q else (Fr(1, 20), Fr(1, 5), Fr(1, 2))):
                    for dz in ((Fr(1), Fr(3, 2)) if q else (Fr(1, 2), Fr(1), Fr(3, 2))):
                        if q and (xs != layouts[n][0] or (dx, dy, dz) not in ((Fr(1, 4), Fr(1, 5), Fr(3, 2)), (Fr(1, 2), Fr(1, 2), Fr(3, 2)))):
                            continue
                        zlo = Fr(0) if q else Fr(-7, 2)
                        nb = len(bands(zlo, dz))
                        for b0 in range(nb):          # split the z-space of the first two points into threshold bands: pure case split, run in parallel
                            for b1 in range(nb):
                                out.append(dict(layer='L1', no_validate=True, n=n, xs=xs, dx=str(dx), dy=str(dy), dz=str(dz), x_max=None, y_range=None,
                                                zlo=str(zlo), zband=[b0, b1], yfix=({'0': '1', str(n - 1): '0'} if q else None)))
            if not q:
                out.append(dict(layer='L1', no_validate=True, n=n, xs=xs, dx='1/4', dy='1/5', dz='1', x_max=10, y_range=None, zlo='-7/2'))
                out.append(dict(layer='L1', no_validate=True, n=n, xs=xs, dx='1/4', dy='1/5', dz='1', x_max=None, y_range=['1', '0'], zlo='-7/2'))
    l1, out = out, []
    for pos in (([1], [3]) if q else [[i] for i in range(6)]):
        out.append(dict(layer='L0', nra_at_decide=True, curve=4, pos=pos, dx='1/2', dy='1/5', dz='1', x_max=None, y_range=None))
    for pos in ([[3], [0]] if q else [[0], [1], [2], [3]]):
        out.append(dict(layer='L0', nra_at_decide=True, curve=5, pos=pos, dx='1/4', dy='1/5', dz='1', x_max=None, y_range=None))
    for ci in ((0, 1, 3) if q else (0, 1, 2, 3)):
        m = len(MRC[ci])
        for pos in ((([2], [m - 2]) if ci != 3 else ([1], [3])) if q else [[i] for i in range(m)]):
            for dx, dy, dz in ((('1/4', '1/5', '1'),) if q else (('1/4', '1/5', '1'), ('1/20', '1/20', '1/2'), ('1/2', '1/2', '3/2'))):
                out.append(dict(layer='L0', nra_at_decide=True, curve=ci, pos=pos, dx=dx, dy=dy, dz=dz, x_max=None, y_range=None))
    return out + l1


def check(h, res, X, Y, x_width, y_height):
    n = len(X)
    ok = all(0 <= i < n for i in res) and all(a < b for a, b in zip(res, res[1:]))
    h.prove(ok, 'valid strictly increasing indices')
    if not ok:
        return
    h.prove(band(*[Y[a] >= Y[b] for a, b in zip(res, res[1:])]), 'knee heights are non-increasing from left to right')
    for a, b in itertools.combinations(res, 2):
        h.prove(abs(X[b] - X[a]) >= x_width, 'reported knees are at least max(1, floor(x_max*dx)) apart in x')
        d = sabs(Y[a] - Y[b]) if h.sym else abs(Y[a] - Y[b])
        h.prove(h.le(y_height, d) if not h.sym else (d >= y_height), 'reported knees are at least (y_max - y_min)*dy apart in y')


def run(h, case):
    zm = h.L.zmethod
    dx, dy, dz = Fr(case['dx']), Fr(case['dy']), Fr(case['dz'])
    if case['layer'] == 'L1':
        if not h.sym:
            raise PreconditionFailed('abstract layer')
        n, xs = case['n'], case['xs']
        X = [Fr(v) for v in xs]
        yfix = case.get('yfix') or {}
        Y = [Fr(yfix[str(i)]) if str(i) in yfix else h.real('y%d' % i, nn=True) for i in range(n)]
        for y in Y:
            h.assume(y <= 1, 'y in [0,1]')
        Z = [h.real('z%d' % i) for i in range(n)]
        for z in Z:
            h.assume(band(z >= Fr(case['zlo']), z <= Fr(7, 2)), 'z in [zlo, 7/2]')
        if case.get('zband'):
            bs = bands(Fr(case['zlo']), dz)
            for i, b in enumerate(case['zband']):
                lo, hi = bs[b]
                h.assume(band(Z[i] >= lo, (Z[i] <= hi) if b == 0 else (Z[i] < hi)), 'case split on the threshold band of z%d' % i)
        uz = h.L.uts_zscore
        saved = uz.zscore_array
        uz.zscore_array = lambda x, y: h.np.array(list(Z))
        try:
            pts = h.array([[a, b] for a, b in zip(X, Y)])
            yr = [Fr(v) for v in case['y_range']] if case['y_range'] else None
            res = h.ints(zm.knees(pts, dx, dy, dz, case['x_max'], yr))
        finally:
            uz.zscore_array = saved
    else:
        from .common import slice_points
        src = MRC[case['curve']] if isinstance(case['curve'], int) else case['curve']
        curve = [[Fr(str(a)), Fr(str(b))] for a, b in src]
        X, Y = slice_points(h, curve, case['pos'])
        for i in case['pos']:
            h.assume(Y[i] <= 1, 'y in [0,1]')
        n = len(X)
        pts = h.argument(h.array([[a, b] for a, b in zip(X, Y)]))
        yr = None
        res = h.ints(zm.knees(pts, h.num(dx), h.num(dy), h.num(dz), case['x_max'], yr))
    x_max = case['x_max'] if case['x_max'] else n
    x_width = max(1, int(x_max * dx))
    if yr:
        y_height = (yr[0] - yr[1]) * dy
    elif h.sym:
        hi, lo = Y[0], Y[0]
        for v in Y[1:]:
            hi, lo = smax(hi, v), smin(lo, v)
        y_height = (hi - lo) * dy
    else:
        y_height = (max(Y) - min(Y)) * dy
    check(h, res, X, Y, x_width, y_height)
    if case['layer'] == 'L0':
        h.prove(not h.writes(), 'arguments unmodified')
    return res


def realise(case, rnd):
    """concretiser for abstract (free z-score) counterexamples: the real Z-method on small random curves with heights on a 1/20 grid"""
    n = max(case['n'], 4)
    for _ in range(200):
        m = rnd.choice((n, n + 1, n + 2))
        ys = [Fr(rnd.randint(0, 20), 20) for _ in range(m)]
        if len(set(ys)) < 2:
            continue
        xs = list(range(m)) if rnd.random() < 0.6 else sorted(rnd.sample(range(3 * m), m))
        c = [[x, str(y)] for x, y in zip(xs, ys)]
        yield dict(layer='L0', curve=c, pos=[], dx=case['dx'], dy=case['dy'], dz=case['dz'], x_max=case.get('x_max'), y_range=case.get('y_range'),
                   realised_from=dict(n=case['n'])), {}


LEVEL_TEXT = ('Bounded symbolic model checking of the real zmethod.knees/getPoints/map_index (main loop, band filters, grouping and final sweep run as written). L1: heights in [0,1] '
              'are solver variables and the z-score vector is a free vector in [-7/2,7/2]^n, which over-approximates every z-score the real normalisation can produce there; '
              'step sizes come from listed concrete values. On every path z3 proves index validity and order, non-increasing heights and the pairwise x / y separation. '
              'L0: the same with the real csd and weighted z-score inline on slices of miss-ratio curves.')
LEVEL_NOTE = 'n = 4 quick / <= 5 thorough in L1 (path count grows like bands^n); step sizes concrete; slices n <= 6; exact reals (T1).'

"""C03 -- every single-knee detector finds the corner of an exact two-slope elbow (L0, slopes and offset symbolic)."""
from fractions import Fraction as Fr
import itertools, random
from symnp import core
from symnp.core import band, bor, bnot, iff, implies

PROPERTY = 'C03'
FUNCTIONS = ['curvature.knee', 'dfdt.knee', 'dfdt.get_knee_gradient', 'menger.knee', 'menger.menger_curvature', 'lmethod.knee', 'lmethod.get_knee',
             'lmethod.compute_error', 'kneedle.knee', 'kneedle._knee', 'kneedle.differences', 'uts.gradient.cfd', 'uts.gradient.csd',
             'uts.thresholding.isodata', 'uts.ema.ema_linear', 'uts.peak_detection.all_peaks', 'uts.peak_detection.highest_peak',
             'linear_fit.linear_fit', 'linear_fit.linear_residuals', 'numpy.polyfit (shim: closed-form least squares)']
BOUNDS = dict(quick='arm lengths 3..5 segments each, spacing patterns over {1,2,3,4}: the unit pattern + 3 seeded patterns per shape; slopes m1 != m2 and the offset c are '
                    'symbolic reals (every orientation is a region of the symbolic space); L-method: fit x cost x refinement x limit in {3,10}; Kneedle(t=0) on monotone elbows',
              thorough='arm lengths 3..7, 12 spacing patterns per shape')
ASSUMPTIONS = ['exact real arithmetic (T1): slopes/offsets are arbitrary reals, a superset of the dyadic grid in the statement; rounding of the divisions is outside',
               'm1 != m2; Kneedle: m1*m2 >= 0 and not both zero... (monotone elbow with non-zero net slope)']
CONFIG = dict(quick=dict(budget_s=170, case_wall_s=120, qtimeout_ms=15000), thorough=dict(budget_s=900, case_wall_s=600, qtimeout_ms=60000))
DETECTORS = ['curvature', 'dfdt', 'menger', 'kneedle', 'lmethod']


def patterns(a, b, tier, seed):
    n = a + b + 1
    pats = [list(range(n))]
    rnd = random.Random(97 * a + 13 * b + seed)
    want = 4 if tier == 'quick' else 12
    while len(pats) < want:
        xs = [2]        # non-zero origin
        for _ in range(n - 1):
            xs.append(xs[-1] + rnd.choice((1, 2, 3, 4)))
        if xs not in pats:
            pats.append(xs)
    return pats


def cases(tier, seed):
    q = tier == 'quick'
    out = []
    arms = (3, 4, 5) if q else (3, 4, 5, 6, 7)
    for a in arms:
        for b in arms:
            for pi, xs in enumerate(patterns(a, b, tier, seed)):
                for det in DETECTORS:
                    if det == 'lmethod':
                        for fit in ('point_fit', 'best_fit'):
                            for it in ('none', 'original', 'adjusted'):
                                for limit in ((10,) if (q and pi > 0) else (3, 10)):
                                    out.append(dict(fn=det, a=a, b=b, xs=xs, fit=fit, it=it, limit=limit))
                            for cost in ('rmse', 'rss'):
                                out.append(dict(fn='lmethod_get_knee', a=a, b=b, xs=xs, fit=fit, cost=cost))
                    else:
                        out.append(dict(fn=det, a=a, b=b, xs=xs))
    return out


def run(h, case):
    a, b, xs = case['a'], case['b'], case['xs']
    X = [Fr(v) for v in xs]
    corner = a
    m1, m2, c = h.real('m1'), h.real('m2'), h.real('c')
    h.assume(m1 != m2, 'distinct slopes')
    fn = case['fn']
    if fn == 'kneedle':
        # monotone elbow: both arms non-decreasing or both non-increasing, not flat on both... (m1 != m2 already)
        h.assume(bor(band(m1 >= 0, m2 >= 0), band(m1 <= 0, m2 <= 0)), 'monotone elbow')
    Y = [c + (m1 if i <= corner else m2) * (X[i] - X[corner]) for i in range(len(X))]
    pts = h.argument(h.array([[x, y] for x, y in zip(X, Y)]))
    L = h.L
    if fn == 'curvature':
        k = L.curvature.knee(pts)
    elif fn == 'dfdt':
        k = L.dfdt.knee(pts)
    elif fn == 'menger':
        k = L.menger.knee(pts)
    elif fn == 'kneedle':
        k = L.kneedle.knee(pts, 0)
    elif fn == 'lmethod':
        lm = L.lmethod
        k = lm.knee(pts, getattr(lm.Fit, case['fit']), getattr(lm.Refinement, case['it']), case['limit'])
    elif fn == 'lmethod_get_knee':
        lm = L.lmethod
        k = lm.get_knee(h.array(X), h.array(Y), getattr(lm.Fit, case['fit']), getattr(lm.Cost, case['cost']))[0]
    else:
        raise KeyError(fn)
    h.prove(k is not None and int(k) == corner, '%s returns the corner index' % fn)
    h.prove(not h.writes(), 'arguments unmodified')
    return None if k is None else int(k)


LEVEL_TEXT = ('Bounded symbolic model checking of the five real single-knee detectors with everything they call (no stubs): for each arm-length pair and spacing pattern the '
              'two slopes and the offset are solver variables constrained only by m1 != m2, so one verdict per pattern covers every convex/concave/rising/falling/V-shaped '
              'elbow with those abscissae - a continuum that strictly contains the dyadic grid of the statement; every path of argmax/ISODATA/refinement loops is explored and '
              'z3 proves the returned index equals the corner.')
LEVEL_NOTE = 'Exact reals (T1); arms 3..5 quick / 3..7 thorough; 4 / 12 spacing patterns per arm pair (not all 4^(n-1)); unbounded arm length is outside the claim.'

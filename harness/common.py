"""helpers shared by the harnesses: structural enumerations (these play the role of unwinding bounds)"""
import itertools, random
from fractions import Fraction as Fr


def x_patterns(n, tier, seed=0, gaps=(1, 2, 3, 4), quick_k=2, thorough_k=8, start=0):
    """concrete strictly increasing integer abscissae: the all-ones pattern plus seeded gap patterns"""
    pats = [[start + i for i in range(n)]]
    rnd = random.Random(1000 * n + seed)
    k = quick_k if tier == 'quick' else thorough_k
    tries = 0
    while len(pats) < k and tries < 100:
        tries += 1
        g = [rnd.choice(gaps) for _ in range(n - 1)]
        xs = [start]
        for v in g:
            xs.append(xs[-1] + v)
        if xs not in pats:
            pats.append(xs)
    return pats


def sublists(seq, kmin=0, kmax=None):
    kmax = len(seq) if kmax is None else kmax
    for k in range(kmin, kmax + 1):
        for c in itertools.combinations(seq, k):
            yield list(c)


def make_points(h, n, xs=None, ynn=False, prefix=''):
    """points with concrete x (xs given) or symbolic strictly increasing x, symbolic y"""
    if xs is None:
        X = [h.real('%sx%d' % (prefix, i)) for i in range(n)]
        for i in range(n - 1):
            h.assume(X[i] < X[i + 1], 'x strictly increasing')
    else:
        X = [Fr(v) for v in xs]
    Y = [h.real('%sy%d' % (prefix, i), nn=ynn) for i in range(n)]
    if ynn and not h.sym:
        for y in Y:
            h.assume(y >= 0, 'y >= 0')
    return X, Y

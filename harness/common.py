"""helpers shared by the harnesses: structural enumerations (these play the role of unwinding bounds)"""
import itertools, random
from fractions import Fraction as Fr


def x_patterns(n, tier, seed=0, gaps=(1, 2, 3, 4), quick_k=2, thorough_k=8, start=0):
    """concrete strictly increasing integer abscissae: the all-ones pattern (from `start`) plus seeded gap patterns that begin at start + 2
    (a non-zero first abscissa: code that forgets to subtract the origin, or adds it, is only visible away from x0 = 0)"""
    pats = [[start + i for i in range(n)]]
    rnd = random.Random(1000 * n + seed)
    k = quick_k if tier == 'quick' else thorough_k
    tries = 0
    while len(pats) < k and tries < 100:
        tries += 1
        g = [rnd.choice(gaps) for _ in range(n - 1)]
        xs = [start + 2]
        for v in g:
            xs.append(xs[-1] + v)
        if xs not in pats:
            pats.append(xs)
    return pats


def sublists(seq, kmin=0, kmax=None):
    kmax = len(seq) if kmax is None else kmax
    for k in range(kmin, kmax + 1):
        for c in itertools.combinations(seq, k):
            yield list(c)


def make_points(h, n, xs=None, ynn=False, prefix=''):
    """points with concrete x (xs given) or symbolic strictly increasing x, symbolic y"""
    if xs is None:
        X = [h.real('%sx%d' % (prefix, i)) for i in range(n)]
        for i in range(n - 1):
            h.assume(X[i] < X[i + 1], 'x strictly increasing')
    else:
        X = [Fr(v) for v in xs]
    Y = [h.real('%sy%d' % (prefix, i), nn=ynn) for i in range(n)]
    if ynn and not h.sym:
        for y in Y:
            h.assume(y >= 0, 'y >= 0')
    return X, Y


# ---- pool of base curves for the inline slices (exact rationals; x strictly increasing, y >= 0)
def _f(s):
    return [[Fr(a), Fr(b)] for a, b in s]


POOL = [
    _f([[1, 5], [2, 5], [3, 6], [4, 6], [5, 6]]),                                   # repo test curve
    _f([[0, 3], [1, 3], [2, 3], [3, 2], [4, 1], [5, 0]]),                           # repo test curve (ends at 0)
    _f([[1, 4], [2, 3], [3, 2], [4, 1], [5, 0]]),                                   # collinear run ending at y = 0
    _f([[1, 1], [2, '1/2'], [3, '1/3'], [4, '1/4'], [5, '1/5'], [6, '1/6']]),       # 1/x
    _f([[0, 8], [1, 4], [2, 0], [4, 0], [7, 0]]),                                   # elbow onto a zero plateau, uneven spacing
    _f([[0, 1], [1, 1], [2, 1], [3, 0], [4, 0]]),                                   # step
    _f([[0, 0], [1, 9], [3, 27], [4, 36]]),                                         # sloped collinear integers
    _f([[0, 0], [1, 0], [2, 0], [3, 0]]),                                           # all zero
    _f([[0, 6], [1, 5], [3, 5], [4, 2], [6, 2], [7, 0]]),                           # two plateaus
    _f([[0, 3000000], [1, 1000000], [2, 500000], [3, 250000], [4, 125000]]),        # huge magnitudes
    _f([[0, '3/1000000'], [1, '1/1000000'], [2, '1/2000000'], [3, '1/4000000'], [4, '1/8000000']]),   # tiny magnitudes
    _f([[2, 0], [3, 1], [4, 2], [5, 2], [6, 2], [7, 3]]),                           # rising with plateau
    _f([[0, 1], [1, 0]]),                                                           # two points
    _f([[0, 2], [1, 1], [2, 0]]),                                                   # three collinear points ending at 0
]
TINY = [12, 13]     # indices of the 2- and 3-point curves


def slice_points(h, curve, positions, nn=True):
    """the pool curve with the heights at `positions` replaced by solver variables (>= 0)"""
    X = [p[0] for p in curve]
    Y = [p[1] for p in curve]
    for i in positions:
        if h.sym:
            h.c.hints['y%d' % i] = Y[i]
        Y[i] = h.real('y%d' % i, nn=nn)
        if nn and not h.sym:
            h.assume(Y[i] >= 0, 'y >= 0')
    return X, Y


# 12-point monotone curve on which lmethod.knee(it=Refinement.original) alternates between the prefixes of 11 and 12 points
# (knee, cutoff) = (6,12) <-> (5,10); found once by a random search, used as the base of an inline slice (C09)
LM_CYCLE = _f([[1, '9.09'], [3, '7.89'], [5, '7.68'], [8, '7.58'], [9, '6.67'], [10, '6.47'], [12, '5.65'], [15, '3.85'], [17, '3.39'], [18, '1.84'], [19, '1.29'], [21, '0.57']])

# periodic integer motif (2,5,2,8) x 3: congruent non-sibling segments have exactly equal ordering scores (tie-break order of the work stack matters)
ZIGZAG = _f([[i + 1, v] for i, v in enumerate([2, 5, 2, 8] * 3 + [2])])
# 7-point integer curve on which two non-sibling pending segments have exactly equal ordering scores (found by a one-off random comparison of two
# tie-break rules; used as the base of an inline slice so that tie-break changes in the work stack have a concrete witness)
TIE7 = _f([[0, 0], [1, 0], [2, 2], [3, 1], [4, 4], [5, 3], [6, 0]])
# 13-point evenly spaced decreasing curve on which the refinement cycles between two prefixes that do not include the whole curve
LM_CYCLE13 = _f([[i, v] for i, v in enumerate([39, 33, 30, 29, 19, 16, 13, 12, 11, 10, 9, 2, 0])])
# 5-point non-monotone curve with a dip that projects before the start of the root chord: Distance.shortest and Distance.perpendicular
# choose different split points of the root range (index 1 vs index 3)
DIP5 = _f([[0, 10], [1, 7], [2, '14.5'], [3, 11], [4, 20]])
# 6-point non-monotone curve whose global cost is not monotone along the fixed-size refinement sequence (the threshold can be accepting at S_k
# and rejecting again at S_m, m > k): separates "stop at the first acceptable refinement, then top up" from "top up, then continue refining"
BUMP6 = _f([[0, 1], [1, 6], [2, 1], [3, 4], [4, 2], [5, 0]])

# two exactly linear arms: the global simplifier stops at 3 points for every threshold, so min_point_rdp takes its fixed-size fall-back
ELBOW9 = _f([[i, v] for i, v in enumerate([16, 13, 10, 7, 4, '3.5', 3, '2.5', 2])])

# 4 points on which the farthest interior point from the chord P0->P3 (index 1) differs from the farthest one from the chord P1->P3 (index 2)
CHORD4 = _f([[0, 0], [1, 5], [2, '4.9'], [3, 0]])


SPECIAL_CURVES = dict(chord4=CHORD4, elbow9=ELBOW9, zigzag=ZIGZAG, tie7=TIE7, bump6=BUMP6, dip5=DIP5, lm_cycle=LM_CYCLE, lm_cycle13=LM_CYCLE13)


def get_curve(ref):
    """pool index | name of a special curve | inline list of [x, y] pairs (used by realised abstract counterexamples)"""
    if isinstance(ref, int):
        return POOL[ref]
    if isinstance(ref, str):
        return SPECIAL_CURVES[ref]
    return [[Fr(str(a)), Fr(str(b))] for a, b in ref]


def random_curves(n, rnd, count=80):
    """small-integer curves of n points (ties, plateaus and collinear runs are frequent), even and uneven spacing"""
    out = []
    tries = 0
    while len(out) < count and tries < 20 * count:
        tries += 1
        hi = 6 if rnd.random() < 0.5 else 40
        ys = [rnd.randint(0, hi) for _ in range(n)]
        if len(set(ys)) < 2 and n > 2:
            continue
        if rnd.random() < 0.7:
            xs = list(range(n))
        else:
            xs = [0]
            for _ in range(n - 1):
                xs.append(xs[-1] + rnd.choice((1, 1, 2, 3)))
        if rnd.random() < 0.3:
            ys = sorted(ys, reverse=True)
        out.append([[x, y] for x, y in zip(xs, ys)])
    return out

"""C15 -- global reconstruction cost matches its definition and is cache-transparent (L0)."""
from fractions import Fraction as Fr
import itertools
from symnp.core import band, bor, bnot, iff, implies, sabs, smax, S, uf
from .common import x_patterns, sublists

PROPERTY = 'C15'
FUNCTIONS = ['evaluation.compute_global_cost', 'evaluation.compute_cost', 'evaluation.compute_partial_cost', 'evaluation.compute_global_rmse',
             'evaluation.mip', 'linear_fit.linear_fit_transform_points', 'linear_fit.linear_fit', 'linear_fit.linear_transform']
BOUNDS = dict(quick='n <= 5 points (concrete x patterns; x symbolic for n <= 4), y >= 0 symbolic, every breakpoint subset with both ends, 5 metrics; '
                    'cache: every ordered pair of breakpoint sets (n <= 5) sharing one dict; call histories without a cache argument over two curves and two metrics (n <= 5); MIP: n <= 5',
              thorough='n <= 6 (x symbolic for n <= 4); cache: every ordered pair (n <= 6) and every ordered triple (n <= 5); MIP: n <= 6')
ASSUMPTIONS = ['exact real arithmetic (T1)', 'y >= 0 (performance curve), x strictly increasing', 'log uninterpreted (shared by code and spec)',
               'cache transparency is proved as equality of the returned real values for all inputs; bit-identity then follows because a cache hit returns a value '
               'computed earlier by the same code on the same sub-array (replays compare floats with ==)']
CONFIG = dict(quick=dict(budget_s=160, case_wall_s=120), thorough=dict(max_cases=1446, budget_s=900, case_wall_s=600))
METRICS = ['r2', 'rmspe', 'rmsle', 'rpd', 'smape']
EPS = Fr(1, 10 ** 16)


def bp_sets(n):
    return [[0] + list(c) + [n - 1] for c in sublists(range(1, n - 1))]


def cases(tier, seed):
    q = tier == 'quick'
    out = []
    nmax = 5 if q else 6
    for n in range(nmax, 1, -1):
        for xs in x_patterns(n, tier, seed, quick_k=2, thorough_k=3, start=1):
            for m in METRICS:
                for red in bp_sets(n):
                    out.append(dict(fn='def', n=n, xs=xs, metric=m, reduced=red))
            for red in bp_sets(n):
                out.append(dict(fn='rmse', n=n, xs=xs, reduced=red))
                if len(red) >= 3:
                    out.append(dict(fn='mip', n=n, xs=xs, reduced=red))
    for n in (3, 4):
        for m in METRICS:
            for red in bp_sets(n):
                out.append(dict(fn='def', n=n, xs=None, metric=m, reduced=red))
    for n in range(3, nmax + 1):
        xs = x_patterns(n, tier, seed, start=1)[-1]
        sets = bp_sets(n)
        for m in METRICS:
            for a in sets:
                if m == 'r2':      # the clip `cost < 0` forks once per evaluation: one continuation per case keeps paths small
                    for b in sets:
                        out.append(dict(fn='cache', n=n, xs=xs, metric=m, first=a, last=b, depth=2, nra_at_decide=False))
                else:
                    out.append(dict(fn='cache', n=n, xs=xs, metric=m, first=a, depth=2, nra_at_decide=False))
    for n in ((4, 5) if q else (4, 5, 6)):
        xs = x_patterns(n, tier, seed, start=1)[-1]
        for m in METRICS:
            for red in bp_sets(n):
                if len(red) < n:
                    out.append(dict(fn='calls', n=n, xs=xs, metric=m, reduced=red))
    if not q:
        n = 5
        xs = x_patterns(n, tier, seed, start=1)[-1]
        for m in METRICS:
            for a in bp_sets(n):
                for b in bp_sets(n):
                    out.append(dict(fn='cache', n=n, xs=xs, metric=m, first=a, second=b, depth=3, nra_at_decide=False))
    # call histories first: they are cheap and the ones that see state kept between calls
    out.sort(key=lambda c: 0 if c['fn'] == 'calls' else 1)
    return out


def _log(h):
    if h.sym:
        return lambda v: Fr(0) if (not isinstance(v, S) and v == 1) else uf('log', v)
    import math
    return lambda v: math.log(float(v))


def interp(X, Y, l, r, i):
    return Y[l] + ((Y[r] - Y[l]) / (X[r] - X[l])) * (X[i] - X[l])


def spec_cost(h, X, Y, red, metric):
    """the statement's definition; returns ('sqrt', v) when the value is the non-negative root of v, else ('val', v)"""
    n = len(X)
    log = _log(h)
    acc = 0
    for l, r in zip(red, red[1:]):
        if r - l + 1 <= 2:
            continue
        for i in range(l, r + 1):
            y, yh = Y[i], interp(X, Y, l, r, i)
            if metric == 'r2':
                acc = acc + (y - yh) ** 2
            elif metric == 'rmsle':
                acc = acc + (log(y + 1) - log(yh + 1)) ** 2
            elif metric == 'rmspe':
                acc = acc + ((y - yh) / (y + EPS)) ** 2
            elif metric == 'rpd':
                acc = acc + sabs(y - yh) / (smax(y, yh) + EPS)
            else:
                acc = acc + 2 * sabs(yh - y) / (sabs(y) + sabs(yh) + EPS)
    total = n + (len(red) - 1) - 1
    if metric == 'r2':
        ym = sum(Y) / n
        tss = sum((y - ym) ** 2 for y in Y)
        if tss == 0:                      # spec side forks like ordinary code
            v = 1 - acc
        else:
            v = 1 - acc / tss
        return 'val', smax(v, 0)
    if metric in ('rmsle', 'rmspe'):
        return 'sqrt', acc / total
    return 'val', acc / total


def spec_rmse2(X, Y, red):
    n = len(X)
    acc = 0
    for l, r in zip(red, red[1:]):
        for i in range(l + 1, r):
            acc = acc + (Y[i] - interp(X, Y, l, r, i)) ** 2
    return acc / n


def run(h, case):
    n, xs, fn = case['n'], case['xs'], case['fn']
    ev, M = h.L.evaluation, h.L.metrics.Metrics
    if xs is None:
        X = [h.real('x%d' % i) for i in range(n)]
        for i in range(n - 1):
            h.assume(X[i] < X[i + 1], 'x strictly increasing')
    else:
        X = [Fr(v) for v in xs]
    Y = [h.real('y%d' % i, nn=True) for i in range(n)]
    if not h.sym:
        h.assume(all(y >= 0 for y in Y), 'y >= 0')
    pts = h.argument(h.array([[a, b] for a, b in zip(X, Y)]))
    if fn == 'def':
        metric, red = case['metric'], case['reduced']
        ra = h.argument(h.iarray(red))
        v = ev.compute_global_cost(pts, ra, getattr(M, metric))
        kind, s = spec_cost(h, X, Y, red, metric)
        if kind == 'sqrt':
            h.prove(band(h.le(0, v), h.eq(v * v, s)), 'global cost == metric accumulated over the piecewise-linear interpolation')
        else:
            h.prove(h.eq(v, s), 'global cost == metric accumulated over the piecewise-linear interpolation')
        h.prove(h.le(0, v), 'global cost >= 0')
        if len(red) == n:
            h.prove(h.eq(v, 1 if metric == 'r2' else 0), 'global cost is 0 (1 for R2) when every point is a breakpoint')
        # list form of `reduced` (as used by the simplifiers) gives the same value
        v2 = ev.compute_global_cost(pts, list(red), getattr(M, metric), {})
        h.prove(h.eq(v, v2), 'list and array breakpoint sets agree')
        h.prove(not h.writes(), 'arguments unmodified')
        return None
    if fn == 'rmse':
        red = case['reduced']
        v = ev.compute_global_rmse(pts, h.iarray(red))
        h.prove(band(h.le(0, v), h.eq(v * v, spec_rmse2(X, Y, red))), 'global RMSE == RMSE against linear interpolation')
        return None
    if fn == 'mip':
        red = case['reduced']
        m, mad = ev.mip(pts, h.argument(h.iarray(red)))
        from symnp.core import ssqrt
        sq = (lambda v: ssqrt(v)) if h.sym else (lambda v: float(v) ** 0.5)
        base = sq(spec_rmse2(X, Y, red))
        incs = []
        for i in range(1, len(red) - 1):
            incs.append(sq(spec_rmse2(X, Y, red[:i] + red[i + 1:])) - base)
        srt = sorted(incs)                # forks on symbolic comparisons
        k = len(srt)
        med = srt[k // 2] if k % 2 else (srt[k // 2 - 1] + srt[k // 2]) / 2
        h.prove(h.eq(m, med), 'MIP == median RMSE increase over interior breakpoints')
        h.prove(not h.writes(), 'arguments unmodified')
        return None
    if fn == 'calls':
        # a history of calls that never pass a cache: another curve, then another metric, in between - the value must only depend on the arguments
        metric, red = getattr(M, case['metric']), case['reduced']
        other = getattr(M, 'smape' if case['metric'] != 'smape' else 'rpd')
        Y2 = [y + h.real('d%d' % i, nn=True) for i, y in enumerate(Y)]
        pts2 = h.array([[a, b] for a, b in zip(X, Y2)])
        same = (lambda a, b: a == b) if h.sym else (lambda a, b: float(a) == float(b))
        ev.compute_global_cost(pts, list(red), metric)
        v_b = ev.compute_global_cost(pts2, list(red), metric)
        v_m = ev.compute_global_cost(pts2, list(red), other)
        v_a = ev.compute_global_cost(pts, list(red), metric)
        h.prove(band(same(v_b, ev.compute_global_cost(pts2, list(red), metric, {})), same(v_m, ev.compute_global_cost(pts2, list(red), other, {})),
                     same(v_a, ev.compute_global_cost(pts, list(red), metric, {}))), 'calls without a cache argument do not depend on earlier calls (other curve, other metric)')
        r1 = ev.compute_global_rmse(pts, h.iarray(red))
        ev.compute_global_rmse(pts2, h.iarray(red))
        h.prove(same(ev.compute_global_rmse(pts, h.iarray(red)), r1), 'compute_global_rmse does not depend on earlier calls')
        return None
    if fn == 'cache':
        metric = getattr(M, case['metric'])
        sets = bp_sets(n)
        shared = {}
        seq = [case['first']] + ([case['second']] if case.get('second') else [])
        for sset in seq:
            ev.compute_global_cost(pts, list(sset), metric, shared)
        same = (lambda a, b: a == b) if h.sym else (lambda a, b: float(a) == float(b))
        for last in ([case['last']] if case.get('last') else sets):
            sh = dict(shared)             # every continuation starts from the same warmed cache
            got = ev.compute_global_cost(pts, list(last), metric, sh)
            fresh = ev.compute_global_cost(pts, list(last), metric, {})
            none = ev.compute_global_cost(pts, list(last), metric)
            h.prove(band(same(got, fresh), same(none, fresh)), 'shared cache returns the value a fresh cache returns')
        return None
    raise KeyError(fn)


LEVEL_TEXT = ('Bounded symbolic model checking of the real compute_global_cost / compute_cost / compute_partial_cost / compute_global_rmse / mip: heights '
              '(and abscissae for small n) are solver variables, every breakpoint subset and metric is enumerated, and z3 proves equality with the statement\'s '
              'definition (two-point interpolation, divisor n + #segments - 1, R2 clipped at 0, <=2-point segments contribute 0), non-negativity, the all-breakpoints '
              'value, and - for every ordered pair (thorough: triple) of breakpoint sets - that evaluating against a warmed shared cache returns the value a fresh '
              'cache returns. Cache state is explored as a history inside one symbolic path.')
LEVEL_NOTE = 'Exact reals (T1); n <= 5/6; query sequences of length 2 (thorough 3) over one metric; log uninterpreted; bit-identity argued from value identity + determinism.'

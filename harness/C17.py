"""C17 -- geometric and ranking primitives equal their geometric definitions (L0)."""
from fractions import Fraction as Fr
import itertools
from symnp.core import band, bor, bnot, iff, implies, ite, smin, smax, sabs

PROPERTY = 'C17'
FUNCTIONS = ['linear_fit.shortest_distance_points', 'linear_fit.cross2d', 'linear_fit.perpendicular_distance_points',
             'linear_fit.perpendicular_distance_index', 'linear_fit.perpendicular_distance', 'knee_ranking.rect_overlap', 'knee_ranking.rect',
             'knee_ranking.rank', 'knee_ranking.distances', 'knee_ranking.distance_to_similarity', 'menger.menger_curvature',
             'postprocessing.triangle_area', 'postprocessing.rank_corners_triangle']
BOUNDS = dict(quick='segment distance: chord end points on the integer grid [0,3]^2 (incl. a = b), 2 fully symbolic query points; perpendicular distance: '
                    'chords on the grid, points symbolic, sub-ranges of curves with n <= 4; rect_overlap: 8 symbolic reals; Menger: symmetry / sign / collinear-zero with 6 symbolic reals, circumradius identity with two points on a 5-point grid and the third symbolic; rank: n <= 4',
              thorough='segment distance: chords on [-2,4]^2; perpendicular sub-ranges n <= 5; rank: n <= 6; otherwise as quick')
ASSUMPTIONS = ['exact real arithmetic (T1)', 'chord end points concrete (grid): the all-symbolic segment-distance identity (7 reals) is beyond z3 (measured, DESIGN 2.6)',
               'rectangles given by (min corner, max corner); Menger triple pairwise distinct']
CONFIG = dict(quick=dict(budget_s=150, case_wall_s=100), thorough=dict(budget_s=900, case_wall_s=600))


def cases(tier, seed):
    q = tier == 'quick'
    out = []
    g = range(0, 4) if q else range(-2, 5)
    grid = [(x, y) for x in g for y in g]
    chords = []
    for a in grid:
        for b in grid:
            chords.append((a, b))
    # one representative per direction class is not enough (clamping depends on the position): keep all, but anchor a at a few places
    anchors = [(0, 0), (1, 2)] if q else [(0, 0), (1, 2), (-2, 3), (4, -1)]
    for a in anchors:
        for b in grid:
            out.append(dict(fn='shortest', a=list(a), b=list(b)))
    for a in anchors[:2]:
        for b in grid:
            if tuple(a) != tuple(b):
                out.append(dict(fn='perp', a=list(a), b=list(b)))
    for n in ((3, 4) if q else (3, 4, 5)):
        for l in range(n - 1):
            for r in range(l + 1, n):
                out.append(dict(fn='perp_index', n=n, left=l, right=r))
    out.append(dict(fn='rect_overlap'))
    out.append(dict(fn='rect'))
    out.append(dict(fn='menger', fixed=None))
    mg = [(0, 0), (1, 0), (0, 1), (2, 1), (1, 2)] if q else [(x, y) for x in range(-1, 3) for y in range(-1, 3)]
    for f in mg:
        for g2 in mg:
            if f != g2:
                out.append(dict(fn='menger', fixed=[list(f), list(g2)]))
    for n in range(1, (5 if q else 7)):
        out.append(dict(fn='rank', n=n))
    out.append(dict(fn='misc'))
    return out


def seg_dist2(p, a, b):
    """squared Euclidean distance from p to the closed segment a-b (to a when a == b); a, b concrete"""
    ux, uy = b[0] - a[0], b[1] - a[1]
    vx, vy = p[0] - a[0], p[1] - a[1]
    uu = ux * ux + uy * uy
    if uu == 0:
        return vx * vx + vy * vy
    tt = (vx * ux + vy * uy) / uu
    tc = smin(smax(tt, 0), 1)
    dx, dy = vx - tc * ux, vy - tc * uy
    return dx * dx + dy * dy


def run(h, case):
    fn = case['fn']
    lf, kr = h.L.linear_fit, h.L.knee_ranking
    if fn == 'shortest':
        a, b = [Fr(v) for v in case['a']], [Fr(v) for v in case['b']]
        P = [(h.real('px%d' % i), h.real('py%d' % i)) for i in range(2)]
        pa = h.argument(h.array([[x, y] for x, y in P]))
        d = h.vals(lf.shortest_distance_points(pa, h.array(a), h.array(b)))
        h.prove(len(d) == len(P), 'one distance per point')
        for i, p in enumerate(P):
            h.prove(band(h.le(0, d[i]), h.eq(d[i] * d[i], seg_dist2(p, a, b))), 'shortest distance == Euclidean distance to the closed segment')
        h.prove(not h.writes(), 'arguments unmodified')
        return None
    if fn == 'perp':
        a, b = [Fr(v) for v in case['a']], [Fr(v) for v in case['b']]
        P = [(h.real('px%d' % i), h.real('py%d' % i)) for i in range(2)]
        d = h.vals(lf.perpendicular_distance_points(h.array([[x, y] for x, y in P]), h.array(a), h.array(b)))
        uu = (b[0] - a[0]) ** 2 + (b[1] - a[1]) ** 2
        for i, p in enumerate(P):
            cr = (b[0] - a[0]) * (p[1] - a[1]) - (b[1] - a[1]) * (p[0] - a[0])
            h.prove(band(h.le(0, d[i]), h.eq(d[i] * d[i] * uu, cr * cr)), 'perpendicular distance == distance to the infinite line')
        return None
    if fn == 'perp_index':
        n, l, r = case['n'], case['left'], case['right']
        X = [Fr(3 * i + (i * i) % 3) for i in range(n)]
        Y = [h.real('y%d' % i) for i in range(n)]
        pts = h.argument(h.array([[x, y] for x, y in zip(X, Y)]))
        d = h.vals(lf.perpendicular_distance_index(pts, l, r))
        h.prove(len(d) == r - l + 1, 'sub-range: one distance per point of points[left..right]')
        a, b = (X[l], Y[l]), (X[r], Y[r])
        uu = (b[0] - a[0]) ** 2 + (b[1] - a[1]) ** 2
        for i in range(min(len(d), r - l + 1)):
            p = (X[l + i], Y[l + i])
            cr = (b[0] - a[0]) * (p[1] - a[1]) - (b[1] - a[1]) * (p[0] - a[0])
            h.prove(band(h.le(0, d[i]), h.eq(d[i] * d[i] * uu, cr * cr)), 'sub-range perpendicular distances are those of exactly points[left..right]')
        if l == 0 and r == n - 1:
            d2 = h.vals(lf.perpendicular_distance(pts))
            h.prove(band(*[h.eq(u, v) for u, v in zip(d, d2)]) if len(d) == len(d2) else False, 'perpendicular_distance == index form on the whole curve')
        return None
    if fn == 'rect_overlap':
        v = {k: h.real(k) for k in ['ax0', 'ay0', 'ax1', 'ay1', 'bx0', 'by0', 'bx1', 'by1']}
        h.assume(band(v['ax0'] <= v['ax1'], v['ay0'] <= v['ay1'], v['bx0'] <= v['bx1'], v['by0'] <= v['by1']), 'corners ordered (min corner, max corner)')
        A0, A1, B0, B1 = h.array([v['ax0'], v['ay0']]), h.array([v['ax1'], v['ay1']]), h.array([v['bx0'], v['by0']]), h.array([v['bx1'], v['by1']])
        p = kr.rect_overlap(A0, A1, B0, B1)
        q = kr.rect_overlap(B0, B1, A0, A1)
        def ov(a0, a1, b0, b1):
            span = smax(a1, b1) - smin(a0, b0)
            return smax(0, (a1 - a0) + (b1 - b0) - span)
        inter = ov(v['ax0'], v['ax1'], v['bx0'], v['bx1']) * ov(v['ay0'], v['ay1'], v['by0'], v['by1'])
        union = (v['ax1'] - v['ax0']) * (v['ay1'] - v['ay0']) + (v['bx1'] - v['bx0']) * (v['by1'] - v['by0']) - inter
        h.prove(bor(band(inter > 0, h.eq(p * union, inter)), band(inter <= 0, h.eq(p, 0))), 'rect_overlap == intersection over union')
        h.prove(h.eq(p, q), 'rect_overlap symmetric')
        h.prove(band(h.le(0, p), h.le(p, 1)), 'rect_overlap in [0,1]')
        disjoint = bor(v['ax1'] <= v['bx0'], v['bx1'] <= v['ax0'], v['ay1'] <= v['by0'], v['by1'] <= v['ay0'])
        h.prove(implies(disjoint, h.eq(p, 0)), 'rect_overlap == 0 on disjoint rectangles')
        same = kr.rect_overlap(A0, A1, A0, A1)
        h.prove(implies(band(v['ax0'] < v['ax1'], v['ay0'] < v['ay1']), h.eq(same, 1)), 'rect_overlap == 1 on identical non-degenerate rectangles')
        return None
    if fn == 'rect':
        p1, p2 = (h.real('ax'), h.real('ay')), (h.real('bx'), h.real('by'))
        lo, hi = kr.rect(h.array(list(p1)), h.array(list(p2)))
        lo, hi = h.vals(lo), h.vals(hi)
        h.prove(band(h.eq(lo[0], smin(p1[0], p2[0])), h.eq(lo[1], smin(p1[1], p2[1])), h.eq(hi[0], smax(p1[0], p2[0])), h.eq(hi[1], smax(p1[1], p2[1]))),
                'rect returns (min corner, max corner)')
        return None
    if fn == 'menger':
        if case['fixed']:
            P = [tuple(Fr(v) for v in case['fixed'][0]), tuple(Fr(v) for v in case['fixed'][1]), (h.real('x2'), h.real('y2'))]
        else:
            P = [(h.real('x%d' % i), h.real('y%d' % i)) for i in range(3)]
        for i, j in itertools.combinations(range(3), 2):
            h.assume(bor(P[i][0] != P[j][0], P[i][1] != P[j][1]), 'points pairwise distinct')
        mc = h.L.menger.menger_curvature
        arr = [h.array(list(p)) for p in P]
        k = mc(arr[0], arr[1], arr[2])
        cr = (P[1][0] - P[0][0]) * (P[2][1] - P[0][1]) - (P[1][1] - P[0][1]) * (P[2][0] - P[0][0])
        def d2(a, b):
            return (a[0] - b[0]) ** 2 + (a[1] - b[1]) ** 2
        if case['fixed'] or not h.sym:
            # the identity with all six coordinates symbolic (degree 8) is beyond z3 and cvc5 (measured): two points on a grid, third symbolic
            h.prove(band(h.le(0, k), h.eq(k * k * d2(P[0], P[1]) * d2(P[1], P[2]) * d2(P[2], P[0]), 4 * cr * cr)),
                    'Menger curvature == 2|cross| / (|fg||gh||hf|) (reciprocal circumradius)')
        h.prove(h.le(0, k), 'Menger curvature >= 0')
        for perm in [(1, 0, 2), (2, 1, 0), (1, 2, 0)]:
            k2 = mc(arr[perm[0]], arr[perm[1]], arr[perm[2]])
            h.prove(h.eq(k2, k), 'Menger curvature symmetric in its arguments')
        h.prove(implies(cr == 0, h.eq(k, 0)), 'Menger curvature == 0 on collinear points')
        return None
    if fn == 'rank':
        n = case['n']
        A = [h.real('a%d' % i) for i in range(n)]
        arr = h.argument(h.array(A))
        r = h.ints(kr.rank(arr))
        ok = sorted(r) == list(range(n))
        h.prove(ok, 'rank returns a permutation of 0..n-1')
        h.prove(band(*[implies(A[i] < A[j], r[i] < r[j]) for i in range(n) for j in range(n) if i != j]) if ok else False, 'rank orders the values')
        h.prove(not h.writes(), 'arguments unmodified')
        return None      # the order of tied values is unspecified in NumPy (unstable sort): not part of the path signature
    if fn == 'misc':
        P = [(h.real('x%d' % i), h.real('y%d' % i)) for i in range(3)]
        q = (h.real('qx'), h.real('qy'))
        d = h.vals(kr.distances(h.array(list(q)), h.array([list(p) for p in P])))
        h.prove(band(*[band(h.le(0, d[i]), h.eq(d[i] * d[i], (P[i][0] - q[0]) ** 2 + (P[i][1] - q[1]) ** 2)) for i in range(3)]), 'distances == Euclidean distances')
        a = [h.real('a%d' % i) for i in range(3)]
        s = h.vals(kr.distance_to_similarity(h.array(a)))
        mx = smax(smax(a[0], a[1]), a[2])
        h.prove(band(*[h.eq(s[i], mx - a[i]) for i in range(3)]), 'distance_to_similarity == max - value')
        ta = h.L.postprocessing.triangle_area(h.array([list(p) for p in P]))
        cr = (P[1][0] - P[0][0]) * (P[2][1] - P[0][1]) - (P[1][1] - P[0][1]) * (P[2][0] - P[0][0])
        h.prove(h.eq(ta * 2, cr), 'triangle_area == signed shoelace area')
        return None
    raise KeyError(fn)


LEVEL_TEXT = ('Bounded symbolic model checking of the real primitives: query points, rectangles, triples and value vectors are solver variables; z3 proves '
              'r >= 0 and r^2 == squared distance to the closed segment (clamped projection written independently) for every grid chord incl. a = b, '
              'distance to the infinite line for the perpendicular forms and their sub-range variant, the IoU laws for rect_overlap (8 reals), the '
              'circumradius identity, symmetry and collinear-zero for Menger (6 reals), and that rank is the ordering permutation.')
LEVEL_NOTE = ('Exact reals (T1). Chord end points of the distance primitives are concrete grid points (the all-symbolic identity is out of reach of z3: DESIGN 2.6); '
              'everything else is fully symbolic. Sizes: rank n <= 4/6, perpendicular sub-ranges n <= 4/5.')

"""C20 -- public functions are pure, deterministic and fully linked (the part of the property a path-exploring solver check can decide).

Claimed: on every explored path of every listed public function (a) no write reaches an argument buffer or argument list, (b) a second call in the same path returns
identical terms, (c) no NameError / AttributeError / arity TypeError is raised.  NOT claimed (not applicable to this technique, see DESIGN section 6): independence of
C/Fortran/view memory layout and of int64/float64 dtype - the shim abstracts both away, so there is nothing for a solver to decide."""
from fractions import Fraction as Fr
import itertools
import numpy as _np
from symnp import core, nd
from symnp.core import band, bor, bnot, iff, implies
from .common import POOL, slice_points

PROPERTY = 'C20'
BOUNDS = dict(quick='every listed public function once on a pool curve (5-6 points) with one symbolic height and symbolic thresholds; all paths of that slice',
              thorough='three pool curves and two symbolic positions per function')
ASSUMPTIONS = ['exact real arithmetic (T1)', 'memory layout and dtype are abstracted by the shim: layout/dtype independence is outside the claim',
               'linkage is decided only on the code paths the slices execute (plus module import), not by a static scan']
CONFIG = dict(quick=dict(budget_s=175, case_wall_s=100, max_paths=3000, nra_at_decide=False), thorough=dict(budget_s=900, case_wall_s=600, max_paths=50000, nra_at_decide=False))
REPORT_KEYS = ['fn']


def _calls(L, h, pts, X, Y, n, t):
    """name -> (callable producing the result, list of argument objects to watch)"""
    rdp, M, lf, ev, pp, kr, cl, ch = L.rdp, L.metrics, L.linear_fit, L.evaluation, L.postprocessing, L.knee_ranking, L.clustering, L.convex_hull
    x, y = pts[:, 0], pts[:, 1]
    red = h.iarray([0, 2, n - 1])
    knees = h.iarray([1, 2, n - 2] if n >= 5 else [1, 2])
    exp = h.array([[X[1], Y[1]], [X[n - 2], Y[n - 2] + 1]])
    removed = h.array([[0, 1], [2, n - 4]])
    removed_rev = h.array([[2, n - 4], [0, 1]])      # rows in reverse order: only valid with sorted=False
    tl = [h.num(t / 2), h.num(t)]        # ascending on purpose: the function wants them in descending order
    yh = h.array([v + Fr(1, 4) for v in Y])
    cmx = h.array([[2, 1], [1, n - 4 if n > 4 else 1]])
    C = {
        'rdp.rdp': (lambda: rdp.rdp(pts, h.num(t)), []),
        'rdp.rdp_fixed': (lambda: rdp.rdp_fixed(pts, 4), []),
        'rdp.grdp': (lambda: rdp.grdp(pts, h.num(t)), []),
        'rdp.mp_grdp': (lambda: rdp.mp_grdp(pts, h.num(t), 4), []),
        'rdp.min_point_rdp': (lambda: rdp.min_point_rdp(pts, tl, 4), [tl]),
        'rdp.mapping': (lambda: rdp.mapping(h.iarray([0, 2]), red, removed), [red, removed]),
        'rdp.mapping(unsorted)': (lambda: rdp.mapping(h.iarray([0, 1, 2]), red, removed_rev, False), [red, removed_rev]),
        'rdp.compute_removed_points': (lambda: rdp.compute_removed_points(pts, red), [red]),
        'rdp.plot_frame': (lambda: rdp.plot_frame(pts, red, 0), []),
        'clustering.single_linkage': (lambda: cl.single_linkage(pts, h.num(t)), []),
        'clustering.complete_linkage': (lambda: cl.complete_linkage(pts, h.num(t)), []),
        'clustering.centroid_linkage': (lambda: cl.centroid_linkage(pts, h.num(t)), []),
        'clustering.average_linkage': (lambda: cl.average_linkage(pts, h.num(t)), []),
        'convex_hull.graham_scan': (lambda: ch.graham_scan(pts), []),
        'convex_hull.graham_scan_lower': (lambda: ch.graham_scan_lower(pts), []),
        'convex_hull.graham_scan_upper': (lambda: ch.graham_scan_upper(pts), []),
        'curvature.knee': (lambda: L.curvature.knee(pts), []),
        'curvature.multi_knee': (lambda: L.curvature.multi_knee(pts), []),
        'dfdt.knee': (lambda: L.dfdt.knee(pts), []),
        'dfdt.get_knee': (lambda: L.dfdt.get_knee(x, y), []),
        'dfdt.multi_knee': (lambda: L.dfdt.multi_knee(pts), []),
        'menger.knee': (lambda: L.menger.knee(pts), []),
        'menger.multi_knee': (lambda: L.menger.multi_knee(pts), []),
        'lmethod.knee': (lambda: L.lmethod.knee(pts), []),
        'lmethod.multi_knee': (lambda: L.lmethod.multi_knee(pts), []),
        'kneedle.knee': (lambda: L.kneedle.knee(pts, 0), []),
        'kneedle.multi_knee': (lambda: L.kneedle.multi_knee(pts), []),
        'zmethod.knees': (lambda: L.zmethod.knees(pts, h.num(Fr(1, 4)), h.num(Fr(1, 5)), h.num(Fr(1))), []),
        'postprocessing.filter_worst_knees': (lambda: pp.filter_worst_knees(pts, knees), [knees]),
        'postprocessing.filter_corner_knees': (lambda: pp.filter_corner_knees(pts, knees, h.num(t)), [knees]),
        'postprocessing.select_corner_knees': (lambda: pp.select_corner_knees(pts, knees, h.num(t)), [knees]),
        'postprocessing.filter_clusters': (lambda: pp.filter_clusters(pts, knees, cl.single_linkage, h.num(t)), [knees]),
        'postprocessing.filter_clusters(hull)': (lambda: pp.filter_clusters(pts, knees, cl.single_linkage, h.num(t), kr.ClusterRanking.hull), [knees]),
        'postprocessing.filter_clusters_corners': (lambda: pp.filter_clusters_corners(pts, knees, cl.single_linkage, h.num(t)), [knees]),
        'postprocessing.add_points_even': (lambda: pp.add_points_even(pts, red, h.iarray([0, 1]), rdp.compute_removed_points(pts, red), h.num(Fr(1, 4)), h.num(t)), [red]),
        'postprocessing.add_points_even_knees': (lambda: pp.add_points_even_knees(pts, knees, h.num(Fr(1, 4)), h.num(t), True), [knees]),
        'postprocessing.rank_corners': (lambda: pp.rank_corners(pts, knees), [knees]),
        'postprocessing.rank_corners_triangle': (lambda: pp.rank_corners_triangle(pts, knees), [knees]),
        'postprocessing.triangle_area': (lambda: pp.triangle_area(pts[0:3]), []),
        'knee_ranking.smooth_ranking': (lambda: kr.smooth_ranking(pts, knees, kr.ClusterRanking.linear), [knees]),
        'knee_ranking.slope_ranking': (lambda: kr.slope_ranking(pts, knees), [knees]),
        'knee_ranking.rank': (lambda: kr.rank(y), []),
        'knee_ranking.distances': (lambda: kr.distances(pts[0], pts), []),
        'knee_ranking.rect_overlap': (lambda: kr.rect_overlap(pts[0] * 0, pts[1] + 1, pts[0] * 0 + Fr(1, 2), pts[2] + 2), []),
        'evaluation.cm': (lambda: ev.cm(pts, knees, exp, h.num(t)), [knees, exp]),
        'evaluation.mae': (lambda: ev.mae(pts, knees, exp), [knees, exp]),
        'evaluation.mse': (lambda: ev.mse(pts, knees, exp, ev.Strategy.best), [knees, exp]),
        'evaluation.rmse': (lambda: ev.rmse(pts, knees, exp, ev.Strategy.worst), [knees, exp]),
        'evaluation.accuracy': (lambda: ev.accuracy(cmx), [cmx]),
        'evaluation.f1score': (lambda: ev.f1score(cmx), [cmx]),
        'evaluation.mcc': (lambda: ev.mcc(cmx), [cmx]),
        'evaluation.compute_global_rmse': (lambda: ev.compute_global_rmse(pts, red), [red]),
        'evaluation.mip': (lambda: ev.mip(pts, h.iarray([0, 1, 3, n - 1])), []),
        'evaluation.compute_global_cost': (lambda: ev.compute_global_cost(pts, red, M.Metrics.smape), [red]),
        'evaluation.compute_global_segment_cost': (lambda: ev.compute_global_segment_cost(pts, h.iarray(list(range(n)))), []),
        'evaluation.get_neighbourhood': (lambda: ev.get_neighbourhood(x, y, n - 2, 0, h.num(Fr(9, 10))), []),
        'evaluation.get_neighbourhood_fast': (lambda: ev.get_neighbourhood_fast(x, y, n - 2, 0, h.num(Fr(9, 10))), []),
        'evaluation.accuracy_knee': (lambda: ev.accuracy_knee(pts, knees), [knees]),
        'evaluation.accuracy_trace': (lambda: ev.accuracy_trace(pts, knees), [knees]),
        'metrics.smape': (lambda: M.smape(y, yh), [yh]),
        'metrics.r2': (lambda: M.r2(y, yh), [yh]),
        'metrics.rmsle': (lambda: M.rmsle(y, yh), [yh]),
        'linear_fit.linear_fit_points': (lambda: lf.linear_fit_points(pts), []),
        'linear_fit.linear_hv_residuals_points': (lambda: lf.linear_hv_residuals_points(pts), []),
        'linear_fit.linear_fit_transform_points': (lambda: lf.linear_fit_transform_points(pts, True), []),
        'linear_fit.r2_points': (lambda: lf.r2_points(pts), []),
        'linear_fit.angle': (lambda: lf.angle((Fr(0), h.num(t)), (Fr(1), h.num(t) + 1)), []),
        'linear_fit.shortest_distance_points': (lambda: lf.shortest_distance_points(pts, pts[0], pts[-1]), []),
        'linear_fit.perpendicular_distance': (lambda: lf.perpendicular_distance(pts), []),
    }
    return C


FUNCTIONS = sorted(['rdp.rdp', 'rdp.rdp_fixed', 'rdp.grdp', 'rdp.mp_grdp', 'rdp.min_point_rdp', 'rdp.mapping', 'rdp.compute_removed_points', 'rdp.plot_frame',
                    'clustering.*_linkage', 'convex_hull.graham_scan*', '<detector>.knee / multi_knee (5 detectors)', 'zmethod.knees', 'postprocessing.* (12 functions)',
                    'knee_ranking.smooth_ranking / slope_ranking / rank / distances / rect_overlap', 'evaluation.* (18 functions)', 'metrics.smape / r2 / rmsle',
                    'linear_fit.* (7 entry points)'])
def names():
    """the keys of the call table, read from this file (the table itself needs a live harness handle)"""
    import re
    src = open(__file__.replace('.pyc', '.py')).read()
    return sorted(set(re.findall(r"^        '([\w.()]+)': \(lambda", src, re.M)))


def cases(tier, seed):
    q = tier == 'quick'
    out = []
    for fn in names():
        for ci, pos in ([(0, [2])] if q else [(0, [2]), (1, [3]), (3, [1]), (0, [4])]):
            out.append(dict(fn=fn, curve=ci, pos=pos, int_range=[-3, 8]))
    return out


def same(h, a, b):
    """structural equality of two results (arrays / tuples / scalars / None)"""
    if a is None or b is None:
        return a is b
    if isinstance(a, (tuple, list)):
        return len(a) == len(b) and band(*[same(h, u, v) for u, v in zip(a, b)])
    if isinstance(a, dict):
        return set(a) == set(b) and band(*[same(h, a[k], b[k]) for k in a])
    if hasattr(a, 'shape'):
        if tuple(a.shape) != tuple(b.shape):
            return False
        fa = list(a.flat) if h.sym else list(_np.asarray(a).reshape(-1))
        fb = list(b.flat) if h.sym else list(_np.asarray(b).reshape(-1))
        return band(*[(u == v) if h.sym else bool(u == v or (u != u and v != v)) for u, v in zip(fa, fb)])
    if h.sym:
        return a == b
    return bool(a == b or (a != a and b != b))


def allowed_outcome(case, rec):
    # only linkage errors are this property's business; value errors / domain errors of degenerate slices belong to other properties
    return rec['outcome'] in ('domain',) or (rec['outcome'] == 'exc' and rec.get('exc_type') not in ('NameError', 'AttributeError', 'TypeError', 'UnboundLocalError'))


def run(h, case):
    X, Y = slice_points(h, POOL[case['curve']], case['pos'])
    n = len(X)
    t = h.real('t')
    h.assume(band(t > 0, t <= 1), 't in (0,1]')
    pts = h.argument(h.array([[a, b] for a, b in zip(X, Y)]))
    call, watch = _calls(h.L, h, pts, X, Y, n, t)[case['fn']]
    watched = []
    for w in watch:
        if isinstance(w, list):
            watched.append((w, list(w)))
        else:
            h.argument(w)
    r1 = call()
    r2 = call()
    h.prove(same(h, r1, r2), 'a second call returns the identical result')
    # history: the same function on another curve in between must not change what the first call returns
    if case['fn'] not in ('rdp.plot_frame', 'evaluation.compute_global_segment_cost'):
        Y2 = [y + 1 + (i % 2) for i, y in enumerate(Y)]
        pts2 = h.array([[a, b] for a, b in zip(X, Y2)])
        call2, _ = _calls(h.L, h, pts2, X, Y2, n, t)[case['fn']]
        try:
            h.fresh_state()
            ref2 = call2()                  # the other curve evaluated from a fresh state
            h.fresh_state()
            call()
            got2 = call2()                  # ... and after a call on the first curve
        except core.PathAbort:
            raise
        except Exception:
            ref2 = got2 = None              # exceptions of degenerate slices are other properties' business
        h.prove(same(h, got2, ref2), 'the result does not depend on calls made before (no state kept between calls)')
    h.prove(not h.writes(), 'array arguments are left unmodified')
    for w, before in watched:
        h.prove(len(w) == len(before) and all((a is b) or bool(same(h, a, b)) for a, b in zip(w, before)), 'list arguments are left unmodified')
    return None


LEVEL_TEXT = ('Bounded symbolic exploration of every listed public function on pool-curve slices with a write log on all argument buffers: on every explored path z3-guided execution shows '
              'that no argument array or list is written, that a repeated call yields term-identical results, and that no NameError / AttributeError / arity TypeError is reachable. '
              'This is the strongest statement this technique can make for C20: memory-layout and dtype independence are abstracted away by the shim and are declared not applicable.')
LEVEL_NOTE = ('Covers the code paths the slices execute (one or two symbolic heights per function), not a static scan of every module; layout (C/F/view) and dtype (int64/float64) independence '
              'are outside the claim; exact reals (T1).')
TECHNIQUE = 'symbolic execution of each public function on the NumPy shim with an argument write log; path conditions decided by z3; linkage errors replayed on the real package'

"""C01 -- curve simplification always terminates with a well-formed reduction.

Layers (DESIGN 3/C01):
  L1  real drivers (rdp, rdp_fixed, grdp, mp_grdp, min_point_rdp) over contract-free kernel stubs: every kernel behaviour, n <= bound
  L0  the complete real call tree inline on slices through a pool of base curves (1-2 symbolic heights + symbolic threshold)
  L2  float64 lemma: the solver searches a chord whose far end carries rounding noise >= eps; the curve built from it is replayed
"""
from fractions import Fraction as Fr
import itertools
from symnp import core
from symnp.core import band, bor, bnot, iff, implies
from .common import POOL, TINY, slice_points, get_curve, random_curves
from .rdpstubs import Stubs, patched, tagged_points, well_formed, STUB_DOC

PROPERTY = 'C01'
FUNCTIONS = ['rdp.rdp', 'rdp.rdp_fixed', 'rdp._rdp_fixed', 'rdp.grdp', 'rdp._grdp', 'rdp.mp_grdp', 'rdp.min_point_rdp', 'rdp.compute_removed_points',
             'rdp.order_triangle', 'rdp.order_area', 'rdp.order_segment', 'rdp.compute_cost_coef',
             'linear_fit.shortest_distance_points', 'linear_fit.perpendicular_distance_points', 'linear_fit.linear_fit*', 'metrics.*',
             'evaluation.compute_global_cost (inline layer)']
STUBS = STUB_DOC
BOUNDS = dict(quick='L1 (stubbed kernels, all kernel behaviours): n <= 5, Distance x {smape, r2} x Order x every length/min_points in 0..n+1, symbolic thresholds; '
                    'L0 (real kernels inline): slices through 7 pool curves (n <= 6, one with uneven spacing and a collinear plateau), one symbolic height + symbolic threshold; L2: chords with integer components <= 64',
              thorough='L1: n <= 6 (rdp, grdp: 7); L0: 12 pool curves, one and two symbolic heights, all metric/distance/order combinations')
ASSUMPTIONS = ['exact real arithmetic in L0/L1 (T1); float64 only through the L2 lemma and the replays',
               'L1 stubs are contract-free apart from D >= 0 and score >= 0 (see stubs)', 'y >= 0, x strictly increasing']
CONFIG = dict(quick=dict(budget_s=170, case_wall_s=150, max_paths=30000), thorough=dict(max_cases=900, budget_s=900, case_wall_s=700, max_paths=600000))
VALIDATE_PATHS = True
REPORT_KEYS = ['fn', 'layer']
DIST = ['shortest', 'perpendicular']
ORD = ['segment', 'triangle', 'area']
MET = ['smape', 'r2', 'rmspe', 'rmsle', 'rpd']


def cases(tier, seed):
    q = tier == 'quick'
    out = []
    out.append(dict(layer='L2', fn='fp_far_end', no_validate=True, probe=True, bound=64, replay_timeout_s=20, fp_timeout_ms=60000 if q else 300000))
    out.append(dict(layer='L2', fn='fp_endpoint_fit', no_validate=True, probe=True, bound=16, replay_timeout_s=20, fp_timeout_ms=60000 if q else 300000))
    l1 = out
    out = []
    nmax = 5 if q else 6
    for n in range(nmax, 1, -1):
        for d in DIST:
            for m in ('smape', 'r2'):
                out.append(dict(layer='L1', no_validate=True, fn='rdp', n=n, distance=d, metric=m))
                for o in ORD:
                    if d == 'perpendicular' and (o != 'segment' or m == 'r2') and q:
                        continue
                    out.append(dict(layer='L1', no_validate=True, fn='grdp', n=n, distance=d, metric=m, order=o))
                    for mp in range(0, n + 2):
                        out.append(dict(layer='L1', no_validate=True, fn='mp_grdp', n=n, distance=d, metric=m, order=o, min_points=mp))
            for o in ORD:
                for k in range(0, n + 2):
                    out.append(dict(layer='L1', no_validate=True, fn='rdp_fixed', n=n, distance=d, order=o, length=k))
        for mp in range(0, n + 2):
            out.append(dict(layer='L1', no_validate=True, fn='min_point_rdp', n=n, min_points=mp, nt=2))
    if not q:
        for d in DIST:
            for m in ('smape', 'r2'):
                out.append(dict(layer='L1', no_validate=True, fn='rdp', n=7, distance=d, metric=m))
    l1cases, out = out, l1
    # ---- L0 slices
    pool = ([0, 1, 2, 3] + TINY) if q else list(range(len(POOL)))
    for ci in pool:
        curve = POOL[ci]
        n = len(curve)
        pos_sets = [[i] for i in range(n)] if not q else ([[n // 2]] if n > 3 else [[n - 1]])
        if not q and n <= 5:
            pos_sets += [[i, j] for i, j in itertools.combinations(range(n), 2)][:4]
        for pos in pos_sets:
            for d in DIST:
                mets = MET if not q else (['smape', 'r2'] if d == 'shortest' else ['rpd'])
                for m in mets:
                    out.append(dict(layer='L0', nra_at_decide=False, fn='rdp', curve=ci, pos=pos, distance=d, metric=m))
                ords = ORD if (not q or d == 'shortest') else ['segment']
                for o in ords:
                    out.append(dict(layer='L0', nra_at_decide=False, fn='rdp_fixed', curve=ci, pos=pos, distance=d, order=o))
                    if o == 'segment' or not q:
                        for m in (['smape'] if q else ['smape', 'r2', 'rpd']):
                            out.append(dict(layer='L0', nra_at_decide=False, fn='grdp', curve=ci, pos=pos, distance=d, metric=m, order=o))
            if not q or n <= 3:
                out.append(dict(layer='L0', nra_at_decide=False, fn='mp_grdp', curve=ci, pos=pos, distance='shortest', metric='smape', order='segment'))
                out.append(dict(layer='L0', nra_at_decide=False, fn='min_point_rdp', curve=ci, pos=pos))
    if q:
        # uneven spacing + an exactly collinear run (zero plateau): the collinear fallback of the fixed-size loop is exercised with non-uniform x
        for o in ORD:
            out.append(dict(layer='L0', nra_at_decide=False, fn='rdp_fixed', curve=4, pos=[1], distance='shortest', order=o))
        out.append(dict(layer='L0', nra_at_decide=False, fn='mp_grdp', curve=4, pos=[1], distance='shortest', metric='smape', order='segment'))
        out.append(dict(layer='L0', nra_at_decide=False, fn='min_point_rdp', curve=4, pos=[1]))
    return out + l1cases


def check_result(h, what, res, n, bound_calls=None):
    red, rem = res
    red = h.ints(red)
    rows = [[int(v) for v in (row.tolist() if hasattr(row, 'tolist') else row)] for row in rem]
    ok, why = well_formed(red, rows, n)
    h.prove(ok, '%s returns a well-formed reduction' % what)
    return red


def run_L1(h, case, check=None):
    check = check or check_result
    n, fn = case['n'], case['fn']
    rdp, M = h.L.rdp, h.L.metrics.Metrics
    pts = tagged_points(h, n)
    st = Stubs(h, n)
    sig = None
    with patched(h, st, requested=case.get('distance', 'shortest')):
        dist = getattr(rdp.Distance, case.get('distance', 'shortest'))
        if fn == 'rdp':
            t = h.real('t')
            h.assume(band(t > 0, t <= 1) if case['metric'] == 'r2' else t > 0, 't > 0 (t <= 1 for R2)')
            red = check(h, 'rdp', rdp.rdp(pts, t, dist, getattr(M, case['metric'])), n)
            h.prove(st.calls['cost'] + 0 <= 2 * n - 3 or n <= 2, 'refinement steps bounded by 2n-3')
            sig = red
        elif fn == 'rdp_fixed':
            red = check(h, 'rdp_fixed', rdp.rdp_fixed(pts, case['length'], dist, getattr(rdp.Order, case['order'])), n)
            h.prove(st.calls['dist'] <= 3 * max(n - 2, 0) + 3 * n, 'refinement steps bounded linearly in n')
            h.prove(len(red) == min(max(case['length'], 2), n), 'exactly min(max(k,2),n) indices')
            sig = red
        elif fn == 'grdp':
            t = h.real('t')
            h.assume(t > 0, 't > 0')
            red = check(h, 'grdp', rdp.grdp(pts, t, dist, getattr(M, case['metric']), getattr(rdp.Order, case['order'])), n)
            h.prove(st.calls['G'] <= n, 'at most n-1 global-cost evaluations (one per insertion)')
            sig = red
        elif fn == 'mp_grdp':
            t = h.real('t')
            h.assume(t > 0, 't > 0')
            red = check(h, 'mp_grdp', rdp.mp_grdp(pts, t, case['min_points'], dist, getattr(M, case['metric']), getattr(rdp.Order, case['order'])), n)
            h.prove(len(red) >= min(case['min_points'], n), 'at least min(min_points, n) indices')
            sig = red
        elif fn == 'min_point_rdp':
            ts = [h.real('t%d' % i) for i in range(case['nt'])]
            for t in ts:
                h.assume(t > 0, 't > 0')
            red = check(h, 'min_point_rdp', rdp.min_point_rdp(pts, list(ts), case['min_points']), n)
            h.prove(len(red) >= min(case['min_points'], n), 'at least min(min_points, n) indices')
            sig = red
    return sig


def run_L0(h, case, check=None):
    check = check or check_result
    fn = case['fn']
    rdp, M = h.L.rdp, h.L.metrics.Metrics
    X, Y = slice_points(h, get_curve(case['curve']), case['pos'])
    n = len(X)
    pts = h.argument(h.array([[a, b] for a, b in zip(X, Y)]))
    dist = getattr(rdp.Distance, case.get('distance', 'shortest'))
    if fn == 'rdp':
        t = h.real('t')
        h.assume(band(t > 0, t <= 1) if case['metric'] == 'r2' else t > 0, 't > 0 (t <= 1 for R2)')
        red = check(h, 'rdp', rdp.rdp(pts, h.num(t), dist, getattr(M, case['metric'])), n)
    elif fn == 'rdp_fixed':
        red = []
        for k in range(0, n + 2):
            red.append(check(h, 'rdp_fixed', rdp.rdp_fixed(pts, k, dist, getattr(rdp.Order, case['order'])), n))
            h.prove(len(red[-1]) == min(max(k, 2), n), 'exactly min(max(k,2),n) indices')
    elif fn == 'grdp':
        t = h.real('t')
        h.assume(band(t > 0, t <= 1) if case['metric'] == 'r2' else t > 0, 't > 0 (t <= 1 for R2)')
        red = check(h, 'grdp', rdp.grdp(pts, h.num(t), dist, getattr(M, case['metric']), getattr(rdp.Order, case['order'])), n)
    elif fn == 'mp_grdp':
        t = h.real('t')
        h.assume(t > 0, 't > 0')
        red = []
        for mp in (0, 3, n, n + 1):
            red.append(check(h, 'mp_grdp', rdp.mp_grdp(pts, h.num(t), mp, dist, getattr(M, case['metric']), getattr(rdp.Order, case['order'])), n))
            h.prove(len(red[-1]) >= min(mp, n), 'at least min(min_points, n) indices')
    elif fn == 'min_point_rdp':
        t1, t2 = h.real('t1'), h.real('t2')
        h.assume(band(t1 > 0, t2 > 0), 't > 0')
        red = []
        for mp in (2, 3, n):
            red.append(check(h, 'min_point_rdp', rdp.min_point_rdp(pts, [h.num(t1), h.num(t2)], mp), n))
            h.prove(len(red[-1]) >= min(mp, n), 'at least min(min_points, n) indices')
    h.prove(not h.writes(), 'arguments unmodified')
    return red


def run_L2(h, case):
    """float64 lemmas (QF_FP, symnp.fp).  Symbolic mode asks the solver for inputs on which a real-arithmetic kernel contract fails in binary64;
    concrete mode builds the collinear curve from the model and checks the real simplifiers on it."""
    from symnp import fp
    import numpy as np
    rdp = h.L.rdp
    names = dict(fp_far_end=['ux', 'uy'], fp_endpoint_fit=['x0', 'w', 'y0'])[case['fn']]
    label = 'L2: simplifiers terminate with a well-formed reduction on a collinear curve whose end point carries float64 rounding noise'
    if h.sym:
        if case['fn'] == 'fp_far_end':
            found = fp.far_end_noise(case['bound'], max_models=1, timeout_ms=case.get('fp_timeout_ms', 60000))
        else:
            found = fp.endpoint_fit_noise(case['bound'], max_models=1, timeout_ms=case.get('fp_timeout_ms', 60000))
        if not found:
            h.prove(True, 'L2: no model within the budget (nothing to replay)')
            return None
        for nm, v in zip(names, found[0]):
            h.assume(h.real(nm) == v)
        # the real-arithmetic layers cannot see this: hand the float model to the replay, which decides
        h.prove(False, label)
        return None
    v = [float(h.real(nm)) for nm in names]
    if case['fn'] == 'fp_far_end':
        pts = np.array([[0.0, 0.0], [v[0] / 4, v[1] / 4], [v[0], v[1]]])
    else:
        pts = np.array([[v[0], v[2]], [v[0] + v[1] / 2, v[2] / 2], [v[0] + v[1], 0.0]])
        # and a non-collinear curve that ends with exactly the lemma's pair (a two-point segment whose fitted end value is not 0)
        extra = np.array([[v[0] - v[1], 2 * v[2] + 5.0], [v[0], v[2]], [v[0] + v[1], 0.0]])
    ok = True
    for call in (lambda: rdp.rdp(pts), lambda: rdp.rdp_fixed(pts, 3), lambda: rdp.mp_grdp(pts, 1e-6, 3), lambda: rdp.grdp(pts),
                 lambda: rdp.rdp(pts, 0.01, rdp.Distance.perpendicular)):
        try:
            red, rem = call()
            good, why = well_formed([int(x) for x in red], [[int(a), int(b)] for a, b in rem], 3)
        except Exception:
            good = False          # a simplifier that raises does not return a well-formed reduction
        ok = ok and good
    if case['fn'] == 'fp_endpoint_fit':
        for call in (lambda: rdp.rdp(extra), lambda: rdp.rdp(extra, 0.01, rdp.Distance.shortest, h.L.metrics.Metrics.rpd), lambda: rdp.grdp(extra), lambda: rdp.rdp_fixed(extra, 3)):
            try:
                red, rem = call()
                good, why = well_formed([int(x) for x in red], [[int(a), int(b)] for a, b in rem], 3)
            except Exception:
                good = False
            ok = ok and good
    h.prove(ok, label)
    return None


def run(h, case):
    return dict(L1=run_L1, L0=run_L0, L2=run_L2)[case['layer']](h, case)


def allowed_outcome(case, rec):
    return False


def realise(case, rnd):
    """concretiser for abstract (stubbed-kernel) counterexamples: the same call on small random integer curves, executed on the real package"""
    n = case['n']
    for curve in random_curves(n, rnd, 60):
        c2 = dict(layer='L0', fn=case['fn'], curve=curve, pos=[], distance=case.get('distance', 'shortest'), metric=case.get('metric', 'smape'),
                  order=case.get('order', 'segment'), realised_from=dict(fn=case['fn'], n=n))
        for t in ('1/20', '1/5'):
            yield c2, dict(t=t, t1=t, t2='1/100')


LEVEL_TEXT = ('Bounded symbolic model checking in three layers. L1: the real driver code of all five simplifiers runs over kernel stubs that are free solver '
              'variables (no contract beyond non-negativity), so termination within a linear step bound, strict monotonicity from 0 to n-1 and the removed table '
              'are proved for every behaviour the numeric kernels can show (including float64 noise) up to n = 5/6, every Distance/Order/length/min_points and '
              'symbolic thresholds. L0: the whole real call tree inline on slices through pool curves. L2: a QF_FP query produces a chord whose far end carries '
              'rounding noise >= eps; the curve built from it is replayed on the real package.')
LEVEL_NOTE = ('n <= 5 quick / 6-7 thorough in L1; L0 on 6/12 pool curves with 1-2 symbolic heights; L1 abstract counterexamples are reported UNCONFIRMED unless a slice '
              'or the L2 lemma realises them; exact reals outside L2.')

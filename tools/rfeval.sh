#!/bin/bash
# usage: rfeval.sh <R> <checks...>  -- behaviour-preserving refactoring from /tmp/knee-rf-<R>: must pass every check (exit 0, no VIOLATION)
R=$1; shift; CHECKS=$@
WT=/tmp/knee-rf-$R; D=/verif/seeded/benign-$R; mkdir -p $D
if [ -d $WT ]; then
  cd $WT || exit 1
  git diff -- src > $D/patch.diff
  cp equiv.py $D/equiv.py 2>/dev/null
  T1=$(PYTHONPATH=$WT/src /venv/bin/python -m pytest -q -p no:cacheprovider test 2>&1 | tail -1)
  E1=$(PYTHONPATH=$WT/src timeout 900 /venv/bin/python equiv.py 2>&1 | tail -1)
  echo "tests: $T1 | equiv: $E1"
  echo "$T1|$E1" > $D/verify.txt
fi
[ -s $D/patch.diff ] || { echo "EMPTY PATCH"; exit 1; }
cd /repo && git apply $D/patch.diff || { echo "PATCH DOES NOT APPLY"; exit 1; }
RES=""
for c in $CHECKS; do
  cd /verif && timeout 1500 ./check $c --tier quick > $D/check_$c.out 2>&1; rc=$?
  v=$(grep -c '^VIOLATION' $D/check_$c.out); ne=$(grep -c '^NOT-ENCODABLE' $D/check_$c.out)
  RES="$RES $c:exit=$rc:violations=$v:notenc=$ne"
done
git -C /repo checkout -- . ; git -C /repo status --short; git -C /verif checkout -- evidence/
echo "checks:$RES"
echo "$RES" > $D/summary.txt

"""run the quick checks of the anchoring properties on test-suite-surviving mutants (scratch trees, KNEE_SRC)
usage: mutcheck.py <k> <nworkers> <sample-size> [jobs]  -> /tmp/mut_checked_<k>.json"""
import json, os, random, shutil, subprocess, sys, glob, time
k, nw, size = int(sys.argv[1]), int(sys.argv[2]), int(sys.argv[3])
jobs = sys.argv[4] if len(sys.argv) > 4 else '8'
surv = []
for f in sorted(glob.glob('/tmp/mut_survivors_*.json')):
    surv += [m for m in json.load(open(f)) if m['survives_tests']]
surv.sort(key=lambda m: (m['file'], m['start'], m['new']))
random.seed(5)
random.shuffle(surv)
skip = int(os.environ.get('MUT_SKIP', '0'))
surv = surv[skip:skip + size][k::nw]
W = '/tmp/mutc%d' % k
out = []
for m in surv:
    shutil.rmtree(W, ignore_errors=True)
    os.makedirs(W)
    shutil.copytree('/repo/src', W + '/src')
    p = W + '/src/kneeliverse/' + m['file']
    orig = open('/repo/src/kneeliverse/' + m['file']).read()
    open(p, 'w').write(orig[:m['start']] + m['new'] + orig[m['end']:])
    env = dict(os.environ, KNEE_SRC=W + '/src/kneeliverse', VERIF_EVIDENCE_DIR=W + '/ev', VERIF_JOBS=jobs, NUMBA_CACHE_DIR=W + '/nbcache')
    os.makedirs(W + '/ev')
    res = {}
    for pid in [p_ for p_ in m['props'] if p_ != 'C20']:
        t0 = time.time()
        try:
            r = subprocess.run(['./check', pid, '--tier', 'quick'], cwd='/verif', env=env, capture_output=True, text=True, timeout=1500)
            tail = [l for l in r.stdout.split('\n') if l.startswith(('VIOLATION', 'PASS', 'INCONCLUSIVE', 'NOT-ENCODABLE', 'HARNESS-ERROR', 'UNCONFIRMED'))]
            res[pid] = dict(exit=r.returncode, s=round(time.time() - t0), lines=[l[:200] for l in tail[:4]])
        except subprocess.TimeoutExpired:
            res[pid] = dict(exit='timeout')
        if res[pid]['exit'] == 1:
            break
    m['checks'] = res
    m['killed'] = any(v['exit'] == 1 for v in res.values())
    out.append(m)
    json.dump(out, open('/tmp/mut_checked%s_%d.json' % (os.environ.get('MUT_TAG', ''), k), 'w'), indent=0)
shutil.rmtree(W, ignore_errors=True)
print('worker', k, 'done', len(out), 'killed', sum(1 for m in out if m['killed']))

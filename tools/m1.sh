#!/bin/bash
# usage: m1.sh <file> <sed-expr> <checks...>  -- one mutant in a scratch copy, checks via KNEE_SRC
F=$1; EXPR=$2; shift 2
W=/tmp/m1-$$; rm -rf $W; mkdir -p $W/ev; cp -r /repo/src $W/src
sed -i "$EXPR" $W/src/kneeliverse/$F
diff <(cat /repo/src/kneeliverse/$F) $W/src/kneeliverse/$F | grep '^[<>]'
for c in $@; do
  cd /verif && KNEE_SRC=$W/src/kneeliverse VERIF_EVIDENCE_DIR=$W/ev VERIF_JOBS=${VERIF_JOBS:-8} timeout 1500 ./check $c --tier quick 2>&1 | grep -E "^(PASS|VIOLATION|  case|INCONCLUSIVE|NOT-ENC|HARNESS|UNCONF)" | cut -c1-330 | head -${LINES_MAX:-6}
done
rm -rf $W

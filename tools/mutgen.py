"""generate first-order mutants of /repo/src/kneeliverse/*.py inside the functions the harnesses analyse
usage: mutgen.py > /tmp/mutants.json"""
import ast, sys, os, json, fnmatch, importlib, glob, random
sys.path.insert(0, '/verif')
SRC = '/repo/src/kneeliverse'

# function -> properties (from the harness modules' FUNCTIONS lists)
fmap = {}
for f in sorted(glob.glob('/verif/harness/C[0-9][0-9].py')):
    pid = os.path.basename(f)[:3]
    txt = open(f).read()
    tree = ast.parse(txt)
    for node in tree.body:
        if isinstance(node, ast.Assign) and any(isinstance(t, ast.Name) and t.id == 'FUNCTIONS' for t in node.targets):
            try:
                val = eval(compile(ast.Expression(node.value), f, 'eval'), {'sorted': sorted})
            except Exception:
                val = []
                for sub in ast.walk(node.value):
                    if isinstance(sub, ast.Constant) and isinstance(sub.value, str):
                        val.append(sub.value)
            for name in val:
                name = name.split(' ')[0]
                fmap.setdefault(name, set()).add(pid)


def props_of(mod, fn):
    full = '%s.%s' % (mod, fn)
    out = set()
    for pat, ps in fmap.items():
        if fnmatch.fnmatch(full, pat) or fnmatch.fnmatch(full, pat.replace('(', '').replace(')', '')):
            out |= ps
    return sorted(out)


CMP = {ast.Lt: ['<=', '>'], ast.LtE: ['<'], ast.Gt: ['>=', '<'], ast.GtE: ['>'], ast.Eq: ['!='], ast.NotEq: ['=='], ast.Is: ['is not'], ast.IsNot: ['is']}
BIN = {ast.Add: ['-'], ast.Sub: ['+'], ast.Mult: ['/'], ast.Div: ['*']}
SWAP = {'min': 'max', 'max': 'min', 'argmin': 'argmax', 'argmax': 'argmin', 'amin': 'amax', 'amax': 'amin', 'floor': 'ceil', 'ceil': 'floor', 'all': 'any', 'any': 'all'}
muts = []
for path in sorted(glob.glob(SRC + '/*.py')):
    mod = os.path.basename(path)[:-3]
    if mod in ('__init__',):
        continue
    text = open(path).read()
    lines = text.split('\n')
    offs = [0]
    for l in lines:
        offs.append(offs[-1] + len(l) + 1)

    def pos(ln, col):
        # col is in utf8 bytes; sources are ascii
        return offs[ln - 1] + col
    tree = ast.parse(text)
    for fn in [n for n in ast.walk(tree) if isinstance(n, ast.FunctionDef)]:
        ps = props_of(mod, fn.name)
        if not ps:
            continue
        doc = ast.get_docstring(fn)
        for node in ast.walk(fn):
            def add(a, b, new, what):
                muts.append(dict(file=mod + '.py', fn=fn.name, props=ps, start=a, end=b, new=new, old=text[a:b], line=text.count('\n', 0, a) + 1, what=what))
            if isinstance(node, ast.Compare) and len(node.ops) == 1:
                a = pos(node.left.end_lineno, node.left.end_col_offset)
                b = pos(node.comparators[0].lineno, node.comparators[0].col_offset)
                seg = text[a:b]
                if '(' in seg or ')' in seg:
                    continue
                for new in CMP.get(type(node.ops[0]), []):
                    add(a, b, ' %s ' % new, 'compare %s -> %s' % (seg.strip(), new))
            elif isinstance(node, ast.BinOp) and type(node.op) in BIN:
                a = pos(node.left.end_lineno, node.left.end_col_offset)
                b = pos(node.right.lineno, node.right.col_offset)
                seg = text[a:b]
                if '(' in seg or ')' in seg:
                    continue
                for new in BIN[type(node.op)]:
                    add(a, b, ' %s ' % new, 'binop %s -> %s' % (seg.strip(), new))
            elif isinstance(node, ast.BoolOp):
                a = pos(node.values[0].end_lineno, node.values[0].end_col_offset)
                b = pos(node.values[1].lineno, node.values[1].col_offset)
                seg = text[a:b]
                if '(' in seg or ')' in seg:
                    continue
                add(a, b, ' or ' if isinstance(node.op, ast.And) else ' and ', 'boolop %s' % seg.strip())
            elif isinstance(node, ast.Constant) and isinstance(node.value, int) and not isinstance(node.value, bool) and 0 <= node.value <= 3:
                a, b = pos(node.lineno, node.col_offset), pos(node.end_lineno, node.end_col_offset)
                if text[a:b] != str(node.value):
                    continue
                add(a, b, str(node.value + 1), 'const %d -> %d' % (node.value, node.value + 1))
                if node.value > 0:
                    add(a, b, str(node.value - 1), 'const %d -> %d' % (node.value, node.value - 1))
            elif isinstance(node, ast.UnaryOp) and isinstance(node.op, ast.Not):
                a, b = pos(node.lineno, node.col_offset), pos(node.operand.lineno, node.operand.col_offset)
                add(a, b, '', 'drop not')
            elif isinstance(node, ast.Call) and isinstance(node.func, (ast.Name, ast.Attribute)):
                name = node.func.id if isinstance(node.func, ast.Name) else node.func.attr
                a, b = pos(node.func.end_lineno, node.func.end_col_offset) - len(name), pos(node.func.end_lineno, node.func.end_col_offset)
                if text[a:b] != name:
                    continue
                if name in SWAP:
                    add(a, b, SWAP[name], 'call %s -> %s' % (name, SWAP[name]))
                if name in ('abs', 'fabs', 'absolute') and len(node.args) == 1:
                    fa = pos(node.func.lineno, node.func.col_offset)
                    add(fa, b, '', 'drop %s()' % name)
# docstrings contain no code; constants inside them are Constant(str) so they are not touched
random.seed(7)
json.dump(muts, sys.stdout, indent=0)
print('mutants', len(muts), file=sys.stderr)
from collections import Counter
print(Counter(m['file'] for m in muts), file=sys.stderr)

import json, os, sys, glob, re
META = {
 'C19-best-tie-mse': ('C19', 'Strategy.best with |K| == |E| and a non-mutual nearest-neighbour matching (mse only: <= became <)', False),
 'C04-strict-accept-tie': ('C04', 'an index range whose end-point-line cost equals t exactly as a float (t taken from a computed cost / round data); non-R2 metrics', False),
 'C13-selector-strict-tie': ('C13', 'a knee whose corner/neighbour rectangle IoU equals t exactly (e.g. IoU 0.5 with t=0.5, or t=0 / t=1)', False),
 'C02-gate-strict-tie': ('C02', 'a sub-range whose end-point-line SMAPE equals t1 exactly (t1 = 0 on a collinear segment, or t1 set to a computed SMAPE)', True),
 'C11-centroid-merge-on-tie': ('C11', 'centroid linkage only, exact tie |x_i - centroid| / range == t', False),
 'C15-stale-segment-error': ('C15', 'a breakpoint set with two adjacent indices after a lossy >= 3-point segment in the same call (stale variable cached for the 2-point segment); shows in the definition and in shared-vs-fresh cache sequences', False),
 'C07-unsorted-lookup-permutation': ('C07', 'sorted=False with >= 3 removed rows in an order that is not its own inverse (cyclic rotations) and different dropped counts', True),
 'C12-rank-gather-not-scatter': ('C12', 'a cluster of >= 3 knees whose score ordering is not an involution (rank() returns argsort instead of its inverse)', False),
 'C05-min-instead-of-all-guard': ('C05', 'a retained segment with one interior point exactly on the chord while another interior point is off it (min instead of all in the zero-distance guard of _rdp_fixed)', False),
 'C10-xmax-default-last-x': ('C10', 'no x_max override, x = 0..n-1 and floor(n*dx) > max(1, floor((n-1)*dx)), two knees exactly floor(n*dx)-1 apart', True),
 'C01-grdp-right-guard-offbyone': ('C01', 'mp_grdp with min_points >= n after _grdp split a segment at its second-to-last point (2-point segment left on the work list, then drained by the fixed-size phase)', False),
 'C06-insort-tiebreak': ('C06', 'two non-sibling pending segments with exactly equal ordering score, the newer one lying to the left (bisect.insort on the whole tuple changes the tie-break of the work stack in _grdp only)', True),
 'C17-vertical-segment-guard': ('C17', 'a vertical chord (a.x == b.x, a.y != b.y): the degenerate-segment guard compares x only', False),
 'C16-isclose-zero-variance': ('C16', 'near-constant y (total sum of squares <= ~1e-8 but non-zero): np.isclose(tss, 0) instead of tss == 0 in linear_r2 (would have been NOT-ENCODABLE before np.isclose was modelled in the shim)', True),
 'C18-collinear-tiebreak-swapped': ('C18', '>= 3 other points exactly collinear with the pivot on the first polar ray (operands of the collinear tie-break swapped in _compare_points)', False),
 'C14-range-from-reduced': ('C14', 'a reduction that drops the global y extreme and a segment whose height lies between ty*range(reduced) and ty*range(curve)', False),
 'C09-visited-wrong-operand': ('C09', 'it=Refinement.original on a curve of >= 13 points whose refinement enters a 2-cycle of cutoffs not containing n (cycle detector records knees instead of cutoffs); caught by the 13-point slice added after reading the report, the abstract layer flags it as UNCONFIRMED', True),
 'C03-initial-cutoff-offbyone': ('C03', 'lmethod.knee with adjusted refinement, right arm of exactly 3 segments and a corner index >= limit - 1', False),
 'C20-mapping-inplace-sort': ('C20', 'rdp.mapping(sorted=False) with a removed table that is not already ordered: rows are sorted into the caller array in place (needed the sorted=False call added to the C20 table)', True),
 'C08-worst-filter-isclose': ('C08', 'a later knee slightly higher than the running minimum (within rtol 1e-5 / atol 1e-8): heights creep upward through the whole pipeline (needed np.isclose in the shim); also caught by C13', True),
 'C19b-cm-last-knee-only': ('C19', '>= 2 knees and >= 3 expected points listed so that a knee is claimed, another one is claimed, and the first is revisited (A, B, A): used-knee list replaced by "last claimed knee"', True),
 'C16b-adjusted-skipped-on-constant-y': ('C16', 'metrics.r2 with R2.adjusted, exactly constant y and y_hat != y (early return skips the (n-1)/(n-2) correction)', False),
 'C12b-peak-is-first-knee': ('C12', 'a multi-member cluster whose first knee is not its highest (peak taken from the first knee instead of the maximum)', True),
 'C14b-increment-at-least-one': ('C14', 'a candidate gap with fewer index steps than points to insert (sparse sampling): the step is forced to >= 1 and insertions run past the gap', False),
 'C17b-rect-overlap-unclamped': ('C17', 'two rectangles separated on both axes at once (both max(0, .) clamps dropped: two negative extents multiply to a positive overlap)', False),
 'C04b-distance-lookup-by-string': ('C04', 'Distance.perpendicular on a non-monotone curve whose dip projects outside the root chord (enum looked up in a string-keyed table: the option is silently ignored in rdp.rdp)', True),
 'C13b-running-min-indent': ('C13', 'knee heights like 5, 7, 6: a knee dropped for being too high followed by one between the running minimum and the dropped height (running minimum updated on every iteration)', False),
 'C15b-tss-eps-guard': ('C15', 'Metrics.r2 on a curve whose total sum of squares is positive but below machine epsilon (tss == 0 became tss < eps)', False),
 'C01b-xmidpoint-searchsorted': ('C01', 'rdp_fixed / mp_grdp / min_point_rdp reaching an exactly collinear run with uneven x spacing whose interior points all lie left of the x midpoint (unclamped searchsorted returns the right end point)', True),
 'C05b-sort-only-with-right-child': ('C05', 'a split on the last interior point of its segment (no right child pushed, so the work stack is not re-sorted) while another retained segment has a higher score', False),
 'C02b-truthiness-instead-of-none': ('C02', 'a detector answer of 0 (only Menger, on an exactly collinear segment) with t1 = 0: `if rv:` drops the knee and both children', True),
 'C11b-wrong-incremental-mean': ('C11', 'centroid linkage with a cluster of >= 3 members and a next point in the narrow band between the true and the skewed centroid', False),
 'C09b-count-weighted-error': ('C09', 'unevenly spaced x: the two-line error is weighted by point counts instead of x-lengths (two cooperating edits in compute_error and get_knee)', False),
 'C18b-ccw-absolute-tolerance': ('C18', 'coordinates so finely spaced that genuine turns have a cross product below 1e-9 (absolute tolerance in _ccw)', False),
 'C07b-cumsum-in-place': ('C07', 'a second mapping() call on the same removed table (default sorted=True): the first call overwrites the caller\'s table with its running total (needed cumsum(out=) in the shim)', True),
 'C10b-sweep-compares-with-previous': ('C10', 'non-monotone curve whose selected knees read low, higher, slightly lower: the final sweep compares with the previous knee even if it was just deleted', True),
 'C06b-mp-grdp-phases-swapped': ('C06', 'global cost not monotone along the refinement sequence, t inside the bump and min_points = m > k*: mp_grdp tops up first and then keeps refining', True),
 'C08b-hull-vertex-not-a-knee': ('C08', 'hull ranking, a cluster of >= 2 knees whose index span holds exactly one lower-hull vertex that is not a knee: the filter returns that vertex (needed np.ones in the shim and hull mode with 5 retained points in the C08 quick tier); also caught by C12', True),
 'C20b-kneedle-t0-inplace-normalise': ('C20', 'kneedle.knee(points, t=0): smoothing skipped and the normalisation done in place on the caller\'s array (two cooperating edits)', False),
 'C03b-get-knee-drops-last-candidate': ('C03', 'adjusted refinement with a right arm of 3-4 segments and a long left arm: the last admissible split point is never tried', False),
 'C15c-mutable-default-cache': ('C15', 'two or more compute_global_cost calls in one process that omit the cache argument, on different curves or metrics (mutable default dict): needed the call-history cases and the per-path reset of module state', True),
 'C04c-cross-call-cost-memo': ('C04', 'two consecutive rdp.rdp calls on the same array object with different cost metrics (module-level memo keyed by array identity and index range only): needed the second-metric history in the slices', True),
 'C05c-order-area-right-child-shortest': ('C05', 'Distance.perpendicular + Order.area on a jagged curve (right child scored with the hard-coded shortest distance): needed separate stubs for the two distance functions and the realisation of the abstract counterexample', True),
 'C02c-t2-gate-moved-offbyone': ('C02', 'a top-level call on a curve with exactly t2 points (size gate moved to push time, up-front guard off by one)', False),
 'C06c-mutable-default-cache-min-point': ('C06', 'min_point_rdp on one curve and then on another one in the same process (mutable default cache shared between calls): needed the second-curve history and threshold repair over both curves', True),
 'C09c-dfdt-guard-wrong-operand': ('C09', 'DFDT on >= 6 points where the knee reaches n-2 and a further refinement pass would move it left (loop guard uses knee instead of cutoff): needed more 6-point DFDT slices', True),
 'C17c-unclamped-fast-path': ('C17', 'first point projects after a and last point before b while another point projects outside the segment (fast path skips the clamping)', False),
 'C01c-dropped-two-point-shortcut': ('C01', 'float64 only: a retained two-point segment ending at y = 0 whose fitted end value is a tiny non-zero number (<=2-point shortcut of rdp.rdp dropped): needed the L2 probe curve that ends with the lemma pair', True),
 'C19c-mae-l1': ('C19', 'mae with >= 2 candidates on the matched side whose L1-nearest and L2-nearest candidate differ (nearest neighbour chosen by Manhattan distance)', False),
 'C11c-avg-midpoint': ('C11', 'average_linkage with a running cluster of >= 3 unevenly spaced members and a threshold between the mid-point distance and the mean distance', False),
 'C16c-isclose-vertical': ('C16', 'first and last abscissa distinct but within 1e-9 relative of each other (math.isclose replaces the exact vertical-segment guard): needed math.isclose in the shim (the first run stopped with a harness error, not a pass)', True),
 'C13c-rect-unordered': ('C13', 'a knee whose right neighbour is strictly higher than the knee and its left neighbour (corner rectangle no longer ordered)', False),
 'C14c-int-plus-one': ('C14', 'a retained segment whose width is an exact multiple of 2*tx of the x range (ceil replaced by truncate-and-add-one)', False),
 'C18c-isclose-pivot': ('C18', 'large coordinates: another point within 1e-5 relative of the pivot that precedes it in input order (pivot masked with np.isclose)', False),
 'C03c-vote-closed-form': ('C03', 'unevenly spaced shallow elbow (concavity vote replaced by a closed form that assumes even spacing)', False),
 'C20c-global-cost-cache': ('C20', 'two compute_global_cost calls without a cache argument that share a (left, right) segment key and differ in curve or metric (mutable default dict)', False),
 'C07c-stale-removed': ('C07', 'min_point_rdp on its rdp_fixed fall-back (no threshold keeps min_points points): removed table left over from the last grdp run; caught by C01 at first; C07 needed the pairs returned by the simplifiers themselves (L1 + slices), C08 a fall-back slice', True),
 'C08c-stale-removed': ('C08', 'same edit as C07c, written independently by a second agent: min_point_rdp fall-back with a knee to the right of the first divergence between the fixed-size set and the stale table; C08 needed the elbow9 fall-back slice', True),
 'C12c-right-slice': ('C12', 'ClusterRanking.right, cluster of >= 3 knees on a non-monotone stretch (right segment extended by one point in the pure right mode only)', False),
 'C10c-yrange-endpoints': ('C10', 'no y_range override and a non-monotone curve whose extreme heights are not at the end points (default y range taken from the first and last point)', False),
 'C17d-rank-searchsorted': ('C17', 'rank() on values with an exact tie (searchsorted of the sorted copy gives tied elements the same rank: not a permutation)', False),
 'C09d-menger-last-triple': ('C09', 'largest Menger curvature at the last interior point n-2 (loop bound drops the last triple), or n = 3', False),
 'C14d-worst-filter-strict': ('C14', 'two candidates of exactly equal height on a plateau (running-minimum filter made strict)', False),
 'C15d-rmse-linspace': ('C15', 'unevenly spaced x inside a segment of >= 3 points (end-point line replaced by np.linspace over the index): the first run aborted inside the model (linspace with symbolic end points) and was reported UNCONFIRMED; linspace fixed, model-raised exceptions are now reported as NOT-ENCODABLE', True),
 'C05d-truthy-length': ('C05', 'rdp_fixed with length 0 or 1 (negative budget is truthy: loop runs until the stack is empty)', False),
 'C06d-cached-total': ('C06', 'non-R2 metric, shared cache inside _grdp, threshold within (n+k-2)/n of the true cost (denominator cached from the first call)', False),
 'C02d-smape-abs-sum': ('C02', 'a point and the end-point line on opposite sides of y = 0 (SMAPE denominator |y + y_hat|): the edit is in metrics.smape, a primitive of C02/C04 whose meaning is the subject of C16 - caught there; C02 and C04 pass by design (their specs are relative to the library primitives)', False),
 'C01d-stale-removed': ('C01', 'third independent occurrence of the min_point_rdp fall-back edit (stale removed table)', False),
 'C04d-loop-budget': ('C04', 'every point retained (tight threshold): iteration cap 2(n-2) forgets the root range, the last range is never visited', False),
 'C10d-falsy-zero-min': ('C10', 'a selected knee of height exactly 0.0 followed by a higher selected knee (running minimum tested by truthiness): needed truthiness of symbolic reals in the term layer (S.__bool__ was missing: always true)', True),
 'C16d-residuals-interior-only': ('C16', 'first x == last x (vertical chord, closed loop or a single point): linear_fit_residuals drops the two end terms, which vanish only when the fit interpolates the end points; needed the wrapper identity with every abscissa symbolic and no precondition', True),
 'C18d-lower-hull-three-points': ('C18', 'three-point curve whose middle point is on or above the chord (early return for n <= 3)', False),
 'C20d-empty-like-int-dtype': ('C20', 'int64 input array: fitted values truncated when stored into a buffer that inherits the integer dtype. NOT caught: int64 / float64 agreement is the part of C20 that DESIGN section 6 declares out of reach (arrays of symbolic values have no integer dtype in the model)', False),
 'C11d-complete-t-one-shortcut': ('C11', 'complete_linkage with t exactly 1.0 (shortcut guard t >= 1 instead of t > 1)', False),
 'C12d-hull-singleton-fast-path': ('C12', 'hull mode, every knee its own cluster, one knee not on the lower hull (fast path returns all knees)', False),
 'C13d-selector-penultimate-guard': ('C13', 'knee at the second-to-last point with overlap >= t (selector guard idx+2 < n)', False),
 'C19d-rmspe-clamp-no-abs': ('C19', 'negative coordinate on the iterated side (denominator clamped with max(p, eps))', False),
 'C07d-grdp-right-guard-nonstrict': ('C07', 'split at the second-to-last point of a segment pushes a two-point child whose pop duplicates an index (mp_grdp with min_points near n, or t = 0): the reduction itself is malformed, which is C01s subject - caught by C01; C07s precondition (strictly increasing index list) excludes it', False),
 'C03d-menger-equal-rise-shortcut': ('C03', 'uneven spacing with equal rises on both sides of the corner (collinearity shortcut valid for even spacing only)', False),
 'C08d-worst-filter-stale-min': ('C08', 'rejected knee followed by a knee lower than it but higher than the last kept one (running minimum updated unconditionally)', False),
 'C06e-grdp-sibling-push-order': ('C06', 'two sibling segments with exactly equal ordering score (curve symmetric about the split point) and t between the costs of the refinements before and after the tied pair: _grdp pushes the right child first, _rdp_fixed the left one', False),
 'C10e-sweep-min-overwritten': ('C10', 'non-monotone curve whose selected knees read low, higher (deleted), in-between (wrongly kept): running minimum overwritten on every iteration of the final sweep (independent rewrite of the idea behind C10b)', False),
 'C12e-filter-argsort-inlined': ('C12', 'left/linear/right mode, a multi-member cluster whose score order is not an involution (>= 3 members on a non-monotone stretch, >= 4 on a decreasing one): kr.rank inlined as np.argsort in filter_clusters', False),
 'C14e-width-gate-nonstrict': ('C14', 'a retained segment whose normalised width equals 2*tx exactly as a float (and height above ty): candidate gate pdx > 2tx became >=', False),
 'C18e-upper-hull-keeps-collinear': ('C18', '>= 3 exactly collinear points on the upper hull itself (pop condition <= 0 became < 0 in graham_scan_upper)', False),
 'C04e-r2-equal-ends-shortcut': ('C04', 'Metrics.r2 and an index range whose first and last heights are exactly equal while its interior is not flat (U shape): early accept without computing the cost', False),
 'C05e-partial-resort-wrong-child': ('C05', '>= 7 points and k >= 6: a split whose dearer child outranks the stack top while the cheaper one does not, followed by splits that skip the re-sort (partial re-sort tests the wrong child): needed the 7-point stack-order slice STACK7 (pool curves had <= 6 points, L1 n <= 6)', True),
 'C16e-r2-degenerate-wrong-operand': ('C16', 'metrics.r2 with exactly constant y and y_hat != y (1 - rss became 1 - tss in the tss == 0 branch)', False),
}
for name,(pid, needs, strengthened) in META.items():
    d='/verif/seeded/'+name
    if not os.path.isdir(d): continue
    summ=open(d+'/summary.txt').read().strip().split('|')
    outs=sorted(glob.glob(d+'/check_*.out'))
    viol=[]
    for o in outs:
        t=open(o).read()
        viol+=re.findall(r'^VIOLATION property=(\S+) replay=\S+\n  case=(.*?) kind=(\S+) label=(.*)$', t, re.M)
    meta=dict(name=name, property=pid, breaks=pid, needs_to_manifest=needs, origin='independent sub-agent given only the property text and a scratch worktree',
              verified_by_me=dict(tests_with_change=summ[0].strip(), demo_exit_with_change=int(summ[1]), demo_exit_without_change=int(summ[2]),
                                  procedure='scratch worktree: pytest with the change; demo.py with the change and after git stash; then git -C /repo apply patch.diff, ./check <id> --tier quick, git -C /repo checkout -- .'),
              checks=[dict(check=c.split(':')[0], exit=int(c.split('=')[1].split(':')[0]), violation_lines=int(c.split('=')[2])) for c in summ[3].split()],
              caught=any(int(c.split('=')[1].split(':')[0])==1 for c in summ[3].split()),
              first_violation=(dict(case=viol[0][1][:300], kind=viol[0][2], label=viol[0][3]) if viol else None),
              missed_before_strengthening=strengthened)
    json.dump(meta,open(d+'/meta.json','w'),indent=1)
# README table
rows=[]; brows=[]
for f in sorted(glob.glob('/verif/seeded/*/meta.json')):
    m=json.load(open(f))
    if m['name'].startswith('benign-'):
        brows.append('| %s | %s | %d | %s | %s |'%(m['name'], m['modules'], m['changed_lines'], ' '.join(c['check'] for c in m['checks']), 'FALSE ALARM' if m['false_alarm'] else 'all pass'))
        continue
    rows.append('| %s | %s | %s | %s | %s |'%(m['name'], m['property'], 'yes' if m['caught'] else 'NO', (m['first_violation'] or {}).get('label','')[:90], 'yes' if m.get('missed_before_strengthening') else ''))
open('/verif/seeded/README.md','w').write('# Seeded changes\n\nEach directory holds `patch.diff` (never committed to /repo), the sub-agent\'s `demo.py`, the outputs of the demo with/without the change, the check output against the change, and `meta.json`.\n\n| change | property | caught by its check (quick tier) | clause that fails | missed at first, check strengthened |\n|---|---|---|---|---|\n'+'\n'.join(rows)+'\n\n# Behaviour-preserving refactorings (the checks must stay silent)\n\n`patch.diff`, the sub-agent\'s differential test `equiv.py` (refactored module vs HEAD), check outputs, `meta.json`.\n\n| change | modules | changed lines | checks run (quick tier) | result |\n|---|---|---|---|---|\n'+'\n'.join(brows)+'\n')
print(open('/verif/seeded/README.md').read()[-1500:])

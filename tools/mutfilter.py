"""run the repository's test-suite on sampled mutants (scratch copies under /tmp/mutw<k>), keep the survivors
usage: mutfilter.py <k> <nworkers> <sample-size>   -> /tmp/mut_survivors_<k>.json"""
import json, os, random, shutil, subprocess, sys
k, nw, size = int(sys.argv[1]), int(sys.argv[2]), int(sys.argv[3])
muts = json.load(open('/tmp/mutants.json'))
muts = [m for m in muts if [p for p in m['props'] if p != 'C20']]
random.seed(11)
random.shuffle(muts)
muts = muts[:size][k::nw]
W = '/tmp/mutw%d' % k
shutil.rmtree(W, ignore_errors=True)
os.makedirs(W)
shutil.copytree('/repo/src', W + '/src')
shutil.copytree('/repo/test', W + '/test')
out = []
env = dict(os.environ, PYTHONPATH=W + '/src', NUMBA_CACHE_DIR=W + '/nbcache')
for i, m in enumerate(muts):
    p = W + '/src/kneeliverse/' + m['file']
    orig = open('/repo/src/kneeliverse/' + m['file']).read()
    assert orig[m['start']:m['end']] == m['old']
    open(p, 'w').write(orig[:m['start']] + m['new'] + orig[m['end']:])
    try:
        r = subprocess.run(['/venv/bin/python', '-m', 'pytest', '-x', '-q', '-p', 'no:cacheprovider', 'test'], cwd=W, env=env, capture_output=True, text=True, timeout=180)
        ok = r.returncode == 0
    except subprocess.TimeoutExpired:
        ok = False
    open(p, 'w').write(orig)
    m['survives_tests'] = ok
    out.append(m)
    json.dump(out, open('/tmp/mut_survivors_%d.json' % k, 'w'))
shutil.rmtree(W, ignore_errors=True)
print('worker', k, 'done', len(out), 'survivors', sum(1 for m in out if m['survives_tests']))

import json,glob
tot=k=0
for f in sorted(glob.glob('/tmp/mut_checked_*.json')):
    for m in json.load(open(f)):
        tot+=1; k+=m['killed']
        if not m['killed']:
            t=open('/repo/src/kneeliverse/'+m['file']).read()
            print(m['file'],m['fn'],m['line'],m['what'],{a:(v['exit'],v.get('s')) for a,v in m['checks'].items()}); print('     ',t[max(0,m['start']-60):m['start']].split('\n')[-1].strip()+' [['+m['old']+'->'+m['new']+']] '+t[m['end']:m['end']+50].split('\n')[0])
print('checked',tot,'killed',k)

#!/bin/bash
# usage: rfeval2.sh <Rk> <checks...>  -- behaviour-preserving refactoring in /tmp/knee-rf-<Rk>: checks run against that tree (KNEE_SRC); must all exit 0
R=$1; shift; CHECKS=$@
WT=/tmp/knee-rf-$R; D=/verif/seeded/benign-$R; mkdir -p $D
cd $WT || exit 1
git diff -- src > $D/patch.diff
cp equiv.py $D/equiv.py 2>/dev/null
[ -s $D/patch.diff ] || { echo "EMPTY PATCH"; exit 1; }
T1=$(PYTHONPATH=$WT/src /venv/bin/python -m pytest -q -p no:cacheprovider test 2>&1 | tail -1)
E1=$(PYTHONPATH=$WT/src timeout 1200 /venv/bin/python equiv.py 2>&1 | tail -1)
echo "tests: $T1 | equiv: $E1"
echo "$T1|$E1" > $D/verify.txt
RES=""
for c in $CHECKS; do
  cd /verif && KNEE_SRC=$WT/src/kneeliverse VERIF_EVIDENCE_DIR=/tmp/seed-ev/benign-$R VERIF_JOBS=${VERIF_JOBS:-8} timeout 1500 ./check $c --tier quick > $D/check_$c.out 2>&1; rc=$?
  v=$(grep -c '^VIOLATION' $D/check_$c.out); ne=$(grep -c '^NOT-ENCODABLE' $D/check_$c.out)
  RES="$RES $c:exit=$rc:violations=$v:notenc=$ne"
done
echo "checks:$RES"
echo "$RES" > $D/summary.txt

#!/bin/bash
# usage: reseed.sh <seeded-name> [checks...]  -- re-run the quick checks against a stored seeded change in a scratch worktree (never touches /repo's working tree)
NAME=$1; shift
D=/verif/seeded/$NAME
CHECKS=${@:-$(python3 -c "import json;print(' '.join(c['check'] for c in json.load(open('$D/meta.json'))['checks'] if c.get('exit',0)==1 or c.get('passed')))")}
WT=/tmp/knee-re-$NAME
git -C /repo worktree add -q --detach $WT HEAD || exit 1
(cd $WT && git apply $D/patch.diff) || { echo "$NAME PATCH DOES NOT APPLY"; git -C /repo worktree remove --force $WT; exit 1; }
RES=""
mkdir -p /tmp/reseed-ev/$NAME
for c in $CHECKS; do
  cd /verif && KNEE_SRC=$WT/src/kneeliverse VERIF_EVIDENCE_DIR=/tmp/reseed-ev/$NAME VERIF_JOBS=${VERIF_JOBS:-8} timeout 1500 ./check $c --tier quick > /tmp/reseed-ev/$NAME/check_$c.out 2>&1; rc=$?
  RES="$RES $c:exit=$rc"
done
git -C /repo worktree remove --force $WT
echo "$NAME$RES"

#!/bin/bash
# usage: seedeval2.sh <PROP> <name> [check-ids...]   -- like seedeval.sh, but the checks run against the scratch worktree itself (KNEE_SRC); /repo is never touched
P=$1; NAME=$2; shift 2; CHECKS=${@:-$P}
WT=/tmp/knee-wt-$P; D=/verif/seeded/$NAME; mkdir -p $D
cd $WT || exit 1
git diff -- src > $D/patch.diff
cp demo.py $D/demo.py
[ -s $D/patch.diff ] || { echo "EMPTY PATCH"; exit 1; }
T1=$(PYTHONPATH=$WT/src /venv/bin/python -m pytest -q -p no:cacheprovider test 2>&1 | tail -1)
PYTHONPATH=$WT/src timeout 300 /venv/bin/python demo.py > $D/demo_with.out 2>&1; R1=$?
git checkout -q -- src; PYTHONPATH=$WT/src timeout 300 /venv/bin/python demo.py > $D/demo_without.out 2>&1; R0=$?; git apply $D/patch.diff
echo "tests_with_change: $T1 | demo exit with=$R1 without=$R0"
RES=""
for c in $CHECKS; do
  cd /verif && KNEE_SRC=$WT/src/kneeliverse VERIF_EVIDENCE_DIR=/tmp/seed-ev/$NAME VERIF_JOBS=${VERIF_JOBS:-10} timeout 1500 ./check $c --tier quick > $D/check_$c.out 2>&1; rc=$?
  v=$(grep -c '^VIOLATION' $D/check_$c.out)
  RES="$RES $c:exit=$rc:violations=$v"
done
echo "checks:$RES"
echo "$T1|$R1|$R0|$RES" > $D/summary.txt
